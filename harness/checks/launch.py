"""C13: launch fidelity - the child is started exactly as requested.

spec/Launch.tla holds three parts; TLC checks each and writes its cases out; every case is
one (or more) implementation test against the real code:

 (a) SplitSpec   the documented splitter as a character-class state machine, three quoting
                 functions, the law RoundTrip.  TLC generates every case of the bound and
                 checks the law on the model; each case (command line + expected argv) is
                 replayed on pexpect.utils.split_command_line, and a seeded sample goes
                 through a real pexpect.spawn(command_line) / PopenSpawn(command_line) to a
                 probe child that reports the argv it received.
 (b) WhichSpec   PATH layouts (<= 3 directories x 9 kinds of entry, PATH set / empty /
                 missing, env argument given or not, explicit paths); every layout is
                 materialised in a temporary tree and compared with pexpect.utils.which and
                 with what a spawned child says it is.
 (c) ConfigSpec  the configuration space; every row is a real spawn of a probe child that
                 reports cwd, environment block, terminal size, ECHO flag and SIGHUP
                 disposition.

spec/LaunchHist.tla (on top of Launch.tla) holds two more parts:

 (d) HistSpec    lookups over a HISTORY: the file system changes between lookups (an entry
                 appears, disappears, gains / loses its x bit, becomes a directory, in an
                 earlier or later PATH directory) while the PATH string stays the same, several
                 names in one process.  The state keeps what the previous lookup of each name
                 returned.  TLC's state graph is dumped; walks that together take every Lookup
                 transition are replayed in this process on a real tree: which() at every
                 Lookup, and a sample of them through spawn / run / PopenSpawn (the child says
                 which file it is).  The expected answer of a step is TLC's successor state.
 (e) CwdSpec     the cwd argument as a path (relative / absolute, '.', '..', trailing slash,
                 symbolic links, '..' after a link whose target has another parent, a caller
                 standing in a directory it entered through a link); the kernel's resolution as
                 a machine.  Every case: spawn / run / PopenSpawn from the caller's directory,
                 the child reports the directory it is in.

The expected value of every test comes out of TLC (the tables are written by ASSUMEs of the
module that TLC has just model-checked; for (d) the dumped state graph).
"""
import collections, copy, json, os, random, shutil, signal, stat, sys, tempfile, time
import multiprocessing
from concurrent.futures import ThreadPoolExecutor, ProcessPoolExecutor

import pexpect
import pexpect.utils
from pexpect import popen_spawn

from .. import tlc, evidence, common, stategraph

PEERS = os.path.join(os.path.dirname(os.path.dirname(os.path.abspath(__file__))), 'peers')

# character classes of Launch.tla -> concrete characters (two sets of representatives)
REPS = {
    'std': {'x': 'x', '_': ' ', 't': '\t', 's': "'", 'd': '"', 'b': '\\', 'e': 'é'},
    'alt': {'x': '-', '_': ' ', 't': '\t', 's': "'", 'd': '"', 'b': '\\', 'e': '日'},
}
SPLIT_ACTIONS = ['AddArgument', 'Present', 'BeginEscape', 'OpenSingle', 'OpenDouble', 'EndArgument', 'SkipWhite',
                 'PlainChar', 'EscapedChar', 'InSingle', 'CloseSingle', 'InDouble', 'CloseDouble', 'Finish']
WHICH_ACTIONS = ['ExplicitHit', 'ExplicitMiss', 'ChoosePath', 'SkipEntry', 'TakeEntry', 'Exhausted']
HIST_ACTIONS = ['Mutate', 'Lookup']
HIST_INVS = ['HistTypeOK', 'HistFirstMatch', 'HistOnlyExecutables', 'HistNothingEarlier', 'HistNoneMeansNone']
CWD_ACTIONS = ['CwdDot', 'CwdUp', 'CwdFollow', 'CwdEnter', 'CwdMissing']
CWD_INVS = ['CwdTypeOK', 'CwdAsRequested', 'CwdMachineIsWalk', 'CwdSlashIrrelevant']
TMP_PREFIX = 'verif-C13-'          # the trees of parts (d) and (e) live in fresh directories of the default tmp dir
SPLIT_INVS = ['SplitTypeOK', 'RoundTrip', 'PrefixSoFar', 'EndsOutside', 'MachineIsSplit', 'CaseInTable']
PROG = 'prog'
SPAWN_TIMEOUT = 30


def text(code, rep='std'):
    m = REPS[rep]
    return ''.join(m[c] for c in code)


class Rec(object):
    """collects failures and hands them to ctx.fail at the end (flush), keeping the `cap` smallest per
    (clause, signature) so that a systematic defect (tens of thousands of failing rows) neither floods
    memory nor hides its simplest instance; the totals are kept"""

    def __init__(self, ctx, cap=25):
        self.ctx = ctx
        self.cap = cap
        self.totals = collections.Counter()
        self.kept = {}

    @staticmethod
    def size(detail):
        d = detail or {}
        return d['size'] if 'size' in d else len(d.get('command_line', ''))

    def fail(self, clause, case, detail=None, signature=None):
        key = (clause, json.dumps(signature or {}, sort_keys=True))
        self.totals[key] += 1
        lst = self.kept.setdefault(key, [])
        item = (self.size(detail), self.totals[key], clause, case, detail, signature)
        if len(lst) < self.cap:
            lst.append(item)
        else:
            worst = max(range(len(lst)), key=lambda i: lst[i][:2])
            if item[:2] < lst[worst][:2]:
                lst[worst] = item
        return item

    def absorb(self, totals, kept):
        """merge what a worker process collected"""
        for key, lst in kept.items():
            for size, _, clause, case, detail, signature in lst:
                self.fail(clause, case, detail, signature)
            self.totals[key] += totals[key] - len(lst)

    def flush(self):
        for key in sorted(self.kept):
            for _, _, clause, case, detail, signature in sorted(self.kept[key], key=lambda it: it[:2]):
                self.ctx.fail(clause, case, detail, signature)
        self.kept = {}

    def total(self):
        return sum(self.totals.values())


def stable(fn, tries=3):
    """real-process rule: a failing case is re-run twice more and reported only if it fails every time.
    fn() returns None when the case passes, else a JSON-able description of the mismatch."""
    last = None
    for _ in range(tries):
        last = fn()
        if last is None:
            return None
    return last


# ---------------------------------------------------------------------------------------------
# (a) split

def split_row_inprocess(r, rec, stats, reps=('std', 'alt')):
    for rep in reps:
        s = text(r['i'], rep)
        want = [text(a, rep) for a in r['a']]
        stats['evaluations'] += 1
        try:
            got = pexpect.utils.split_command_line(s)
        except Exception as e:                      # noqa - whatever it raises is a wrong answer
            got = '%s: %s' % (type(e).__name__, e)
        if got != want:
            rec.fail('C13:split-roundtrip', {'kind': 'split', 'row': r, 'rep': rep},
                     detail={'command_line': s, 'got': got, 'want': want},
                     signature={'part': 'split', 'lead': r['l'], 'style': r['y']})


class ArgvBench(object):
    """a directory (the only one on the child's PATH) holding the argv probe under every name that
    can be the first argument of a case"""

    def __init__(self, work):
        self.dir = os.path.join(work, 'argvbin')
        self.out = os.path.join(work, 'argv.out')
        os.makedirs(self.dir, exist_ok=True)
        src = os.path.join(PEERS, 'argv_probe.sh')
        self.names = set()
        chars = sorted(REPS['std'].values())
        for a in chars:
            for b in [''] + chars:
                self.add(src, a + b)

    def add(self, src, name):
        if name in self.names:
            return
        p = os.path.join(self.dir, name)
        shutil.copyfile(src, p)
        os.chmod(p, 0o755)
        self.names.add(name)

    def env(self):
        return {'PATH': self.dir, 'VERIF_PROBE_OUT': self.out}

    def clear(self):
        try:
            os.unlink(self.out)
        except OSError:
            pass

    def report(self):
        if not os.path.exists(self.out):
            return None
        raw = open(self.out, 'rb').read().split(b'\0')
        return [x.decode('utf-8', 'surrogateescape') for x in raw[:-1]]


def run_pty(command, args=None, **kw):
    """spawn, wait for the child's end of file, reap; returns None or the exception text"""
    try:
        child = pexpect.spawn(command, args or [], timeout=SPAWN_TIMEOUT, **kw)
    except pexpect.ExceptionPexpect as e:
        return 'ExceptionPexpect: %s' % e
    except Exception as e:
        return '%s: %s' % (type(e).__name__, e)
    try:
        child.expect(pexpect.EOF)
        try:
            child.wait()                        # the child has hung up; block until it is gone (no sleeps)
        except pexpect.ExceptionPexpect:
            pass                                # already reaped
        child.ptyproc.delayafterclose = 0       # nothing left to wait for
    finally:
        child.close()
    return None


def run_popen(command, **kw):
    try:
        child = popen_spawn.PopenSpawn(command, timeout=SPAWN_TIMEOUT, **kw)
    except OSError as e:
        return '%s: %s' % (type(e).__name__, e)
    except Exception as e:
        return '%s: %s' % (type(e).__name__, e)
    try:
        child.expect(pexpect.EOF)
    finally:
        child.wait()
        child._read_thread.join()
        child.proc.stdin.close()
        child.proc.stdout.close()
    return None


def split_row_child(r, transport, bench, rec, stats, encoding=None):
    s = text(r['i'])
    want_args = [text(a) for a in r['a']]
    want = [os.path.join(bench.dir, want_args[0])] + want_args[1:]

    def once():
        bench.clear()
        stats['evaluations'] += 1
        if transport == 'pty':
            err = run_pty(s, env=bench.env(), encoding=encoding)
        elif transport == 'pty-list':          # the list form: nothing is split, the list is the argv
            arglist = list(want_args[1:])
            err = run_pty(want_args[0], arglist, env=bench.env(), encoding=encoding)
            if err is None and bench.report() == want:
                # the caller's list is the caller's: launching again with the very same list object must
                # start the very same argv (a worker pool / retry loop re-using one list)
                bench.clear()
                stats['evaluations'] += 1
                err = run_pty(want_args[0], arglist, env=bench.env(), encoding=encoding)
                if err is None and arglist != want_args[1:]:
                    return {'command_line': s, 'callers_list_after_spawn': arglist, 'callers_list_before': want_args[1:],
                            'child_argv': bench.report(), 'want_argv': want}
        else:
            err = run_popen(s, env=bench.env(), encoding=encoding)
        got = bench.report()
        if err is not None:
            return {'command_line': s, 'raised': err, 'want_argv': want}
        if got != want:
            return {'command_line': s, 'child_argv': got, 'want_argv': want}
        return None
    bad = stable(once)
    if bad is not None:
        rec.fail('C13:argv-in-child', {'kind': 'argv', 'row': r, 'transport': transport, 'encoding': encoding},
                 detail=bad, signature={'part': 'argv', 'transport': transport, 'style': r['y'],
                                        'lead': r['l'] if transport != 'pty-list' else None})


def unencodable_argument_cases(bench, rec, stats, only=None):
    """An argument the instance encoding cannot represent, under every error policy: pexpect either refuses to
    start the child (an exception, nothing launched) or the child sees exactly the requested argv - never a
    child started with an argument from which characters were dropped or replaced."""
    name = sorted(bench.names)[0]
    cases = []
    for encoding, arg in (('ascii', 'caf\u00e9'), ('latin-1', '\u20ac5'), ('ascii', 'a\u00e9b c'), ('utf-8', 'caf\u00e9'),
                          ('latin-1', 'caf\u00e9')):
        for errors in ('strict', 'ignore', 'replace', 'backslashreplace'):
            for form in ('list', 'line'):
                cases.append((encoding, errors, arg, form))
    for encoding, errors, arg, form in cases:
        if only is not None and (encoding, errors, arg, form) != tuple(only):
            continue

        def once():
            bench.clear()
            stats['evaluations'] += 1
            if form == 'list':
                err = run_pty(name, [arg, 'z'], env=bench.env(), encoding=encoding, codec_errors=errors)
            else:
                err = run_pty("%s '%s' z" % (name, arg), env=bench.env(), encoding=encoding, codec_errors=errors)
            got = bench.report()
            if got is None:
                return None                       # nothing was started (refused): allowed
            want = [os.path.join(bench.dir, name), arg.encode(encoding, 'surrogateescape').decode('utf-8', 'surrogateescape')
                    if _encodable(arg, encoding) else None, 'z']
            if want[1] is None or got != want:
                return {'encoding': encoding, 'codec_errors': errors, 'argument': arg, 'form': form, 'child_argv': got,
                        'what': 'a child was started with an argument that is not the requested one', 'raised': err}
            return None
        bad = stable(once)
        if bad is not None:
            rec.fail('C13:argv-in-child', {'kind': 'unencodable', 'case': [encoding, errors, arg, form]}, detail=bad,
                     signature={'part': 'argv-unencodable', 'encoding': encoding, 'errors': errors, 'form': form})


def _encodable(arg, encoding):
    try:
        arg.encode(encoding)
        return True
    except UnicodeError:
        return False


# ---------------------------------------------------------------------------------------------
# (b) which

SCRIPT = "#!/bin/sh\nprintf '%%s\\0' '%s' \"$0\" > \"$VERIF_PROBE_OUT\"\n"


class Tree(object):
    """one world of Launch.tla materialised under `root`"""

    def __init__(self, root, w):
        self.root = root
        self.w = w
        shutil.rmtree(root, ignore_errors=True)
        os.makedirs(os.path.join(root, 'tg'))
        self.cwd = os.path.join(root, 'cwd')
        os.makedirs(self.cwd)
        self.out = os.path.join(root, 'report')
        self.tags = {}
        src = w['src']
        self.srcdirs = [os.path.join(root, 'p%d' % (i + 1)) for i in range(len(src['dirs']))]
        for i, k in enumerate(src['dirs']):
            self.entry(self.srcdirs[i], PROG, k, 'src%d' % (i + 1))
        self.defdirs = [os.path.join(root, 'def%d' % (i + 1)) for i in range(len(w['def']))]
        for i, k in enumerate(w['def']):
            self.entry(self.defdirs[i], PROG, k, 'def%d' % (i + 1))
        self.decoy = os.path.join(root, 'decoy')
        self.entry(self.decoy, PROG, 'exec', 'environ-decoy')
        if src['state'] == 'set':
            self.pathvalue = os.pathsep.join(self.srcdirs)
        elif src['state'] == 'empty':
            self.pathvalue = ''
        else:
            self.pathvalue = None
        # how the program is named
        if w['mode'] == 'name':
            self.filename = PROG
        elif w['mode'] == 'abs':
            d = os.path.join(root, 'ex')
            self.entry(d, PROG, w['target'], 'explicit')
            self.filename = os.path.join(d, PROG)
        else:
            self.entry(os.path.join(self.cwd, 'ex'), PROG, w['target'], 'explicit')
            self.filename = os.path.join('ex', PROG)
            self.tags[self.filename] = 'explicit'
        # env argument / process environment
        if w['envGiven']:
            self.env = {'VERIF_PROBE_OUT': self.out}
            if self.pathvalue is not None:
                self.env['PATH'] = self.pathvalue
            self.environ_path = self.decoy
        else:
            self.env = None
            self.environ_path = self.pathvalue

    def entry(self, d, name, kind, tag):
        if kind == 'nodir':
            return
        os.makedirs(d, exist_ok=True)
        p = os.path.join(d, name)
        if kind.startswith('ln_'):
            tdir = os.path.join(self.root, 'tg', tag)
            os.makedirs(tdir)
            self.make(os.path.join(tdir, 'target'), kind[3:], tag)
            os.symlink(os.path.join(tdir, 'target'), p)
        else:
            self.make(p, kind, tag)
        self.tags[p] = tag

    def make(self, p, kind, tag):
        if kind == 'missing':
            return
        if kind == 'dir':
            os.mkdir(p)
            return
        with open(p, 'w') as f:
            f.write(SCRIPT % tag)
        os.chmod(p, 0o755 if kind == 'exec' else 0o644)

    def expected(self, want):
        """the path the model's result denotes"""
        if want['k'] == 'none':
            return None
        if want['k'] == 'explicit':
            return self.filename
        dirs = self.defdirs if want['src'] == 'def' else self.srcdirs
        return os.path.join(dirs[want['idx'] - 1], PROG)

    def __enter__(self):
        self.saved = (os.environ.get('PATH'), os.defpath, os.getcwd(), os.environ.get('VERIF_PROBE_OUT'))
        if self.environ_path is None:
            os.environ.pop('PATH', None)
        else:
            os.environ['PATH'] = self.environ_path
        os.environ['VERIF_PROBE_OUT'] = self.out
        os.defpath = os.pathsep.join(self.defdirs)
        os.chdir(self.cwd)
        return self

    def __exit__(self, *a):
        path, defpath, cwd, po = self.saved
        if path is None:
            os.environ.pop('PATH', None)
        else:
            os.environ['PATH'] = path
        if po is None:
            os.environ.pop('VERIF_PROBE_OUT', None)
        else:
            os.environ['VERIF_PROBE_OUT'] = po
        os.defpath = defpath
        os.chdir(cwd)

    def report(self):
        if not os.path.exists(self.out):
            return None
        raw = open(self.out, 'rb').read().split(b'\0')
        return [x.decode('utf-8', 'surrogateescape') for x in raw[:-1]]


def which_sig(w):
    return {'part': 'which', 'mode': w['mode'], 'envGiven': w['envGiven'], 'pathState': w['src']['state']}


def which_row(r, root, rec, stats, transports=()):
    w, want = r['world'], r['want']
    tree = Tree(root, w)
    exp = tree.expected(want)
    with tree:
        stats['evaluations'] += 1
        try:
            got = pexpect.utils.which(tree.filename, env=tree.env)
        except Exception as e:                      # noqa
            got = '%s: %s' % (type(e).__name__, e)
        if got != exp:
            rec.fail('C13:which', {'kind': 'which', 'row': r, 'transports': []},
                     detail={'filename': tree.filename, 'env_PATH': (tree.env or {}).get('PATH', '<no env / no PATH>'),
                             'environ_PATH': tree.environ_path, 'defpath': os.defpath, 'got': got, 'want': exp,
                             'effective': r['effective']},
                     signature=which_sig(w))
        for transport in transports:
            if transport == 'popen' and not (w['mode'] == 'name' and w['src']['state'] == 'set'):
                continue      # subprocess's own rules for an empty PATH / relative explicit paths are not pexpect's

            def once():
                stats['evaluations'] += 1
                try:
                    os.unlink(tree.out)
                except OSError:
                    pass
                if transport == 'pty':
                    err = run_pty(tree.filename, env=tree.env)
                else:
                    err = run_popen([tree.filename], env=tree.env)
                rep = tree.report()
                if exp is None:
                    if err is None or rep is not None:
                        return {'want': 'no executable: the launch must be refused', 'raised': err, 'child_report': rep}
                    return None
                if err is not None:
                    return {'want_executable': exp, 'raised': err}
                if rep is None or rep[0] != tree.tags.get(exp) or (transport == 'pty' and rep[1] != exp):
                    return {'want_executable': exp, 'want_tag': tree.tags.get(exp), 'child_report': rep}
                return None
            bad = stable(once)
            if bad is not None:
                sig = which_sig(w)
                sig['transport'] = transport
                rec.fail('C13:which-child', {'kind': 'which', 'row': r, 'transports': [transport]}, detail=bad, signature=sig)


# ---------------------------------------------------------------------------------------------
# (c) configuration pass-through

DIMS = {'none': None, 'default': (24, 80), 'small': (7, 31), 'unit': (1, 1)}
PREEXEC_UMASK = 0o057


def _preexec():
    os.umask(PREEXEC_UMASK)


class ConfigBench(object):
    def __init__(self, work):
        self.bin = os.path.join(work, 'cfgbin')
        self.tmp = os.path.realpath(os.path.join(work, 'cfgcwd'))
        self.out = os.path.join(work, 'config.report')
        os.makedirs(self.bin, exist_ok=True)
        os.makedirs(self.tmp, exist_ok=True)
        self.probe = os.path.join(self.bin, 'launchprobe')
        shutil.copyfile(os.path.join(PEERS, 'launch_probe.py'), self.probe)
        os.chmod(self.probe, 0o755)
        self.n = 0


def config_row(r, bench, rec, stats, ctx=None):
    row, want = r['row'], r['want']
    bench.n += 1
    token = 'mark-%d-%d' % (os.getpid(), bench.n)
    if row['env'] == 'none':
        env = None
        command = bench.probe
    elif row['env'] == 'with_path':
        env = {'PATH': bench.bin + os.pathsep + '/usr/bin' + os.pathsep + '/bin', 'VERIF_MARK': token, 'LANG': 'C'}
        command = 'launchprobe'            # found through the env argument's PATH only
    elif row['env'] == 'empty':
        env = {}                           # an explicitly empty environment is a request like any other
        command = bench.probe
    else:
        env = {'VERIF_MARK': token}
        command = bench.probe
    kw = {}
    if row['cwd'] == 'tmp':
        kw['cwd'] = bench.tmp
    if row['preexec']:
        kw['preexec_fn'] = _preexec
    if row['transport'] == 'pty':
        kw['echo'] = row['echo']
        kw['ignore_sighup'] = row['ignore_sighup']
        if DIMS[row['dims']] is not None:
            kw['dimensions'] = DIMS[row['dims']]

    def once():
        stats['evaluations'] += 1
        try:
            os.unlink(bench.out)
        except OSError:
            pass
        os.environ['VERIF_MARK'] = token
        inherited = dict(os.environ)
        parent_cwd = os.path.realpath(os.getcwd())
        parent_umask = os.umask(0)
        os.umask(parent_umask)
        try:
            if row['transport'] == 'pty':
                err = run_pty(command, [bench.out], env=env, **kw)
            else:
                err = run_popen([command, bench.out], env=env, **kw)
        finally:
            os.environ.pop('VERIF_MARK', None)
        if err is not None:
            return [('C13:launch', {'raised': err})]
        if not os.path.exists(bench.out):
            return [('C13:launch', {'problem': 'the child ended without reporting'})]
        rep = json.load(open(bench.out))
        bad = []
        exp_cwd = bench.tmp if want['cwd'] == 'tmp' else parent_cwd
        if os.path.realpath(rep['cwd']) != exp_cwd:
            bad.append(('C13:cwd', {'child_cwd': rep['cwd'], 'want': exp_cwd}))
        exp_env = inherited if want['env'] == 'inherited' else env
        if rep['environ'] != exp_env:
            diff = {k: [rep['environ'].get(k), exp_env.get(k)] for k in set(rep['environ']) | set(exp_env)
                    if rep['environ'].get(k) != exp_env.get(k)}
            bad.append(('C13:env', {'differing_variables [child, want]': diff}))
        if want['tty']:
            if rep['winsize'] != [want['rows'], want['cols']]:
                bad.append(('C13:winsize', {'child_winsize': rep['winsize'], 'want': [want['rows'], want['cols']]}))
            if rep['echo'] != want['echo']:
                bad.append(('C13:echo', {'child_ECHO_flag': rep['echo'], 'want': want['echo']}))
        elif rep['tty']:
            bad.append(('C13:launch', {'problem': 'PopenSpawn child has a terminal on stdin'}))
        ign = rep['sighup_ignored_mask']
        if ign != (want['sighup'] == 'ignored') or rep['sighup_getsignal'] != want['sighup']:
            bad.append(('C13:sighup', {'child_SIGHUP': rep['sighup_getsignal'], 'SigIgn_bit': ign, 'want': want['sighup']}))
        # not part of the property statement: the user's preexec_fn ran (noted as drift only)
        exp_umask = PREEXEC_UMASK if row['preexec'] else parent_umask
        if rep['umask'] != exp_umask and ctx is not None:
            ctx.drift += 1
        return bad or None
    bad = stable(once)
    if bad:
        for clause, detail in bad:
            rec.fail(clause, {'kind': 'config', 'row': r}, detail=detail,
                     signature={'part': 'config', 'transport': row['transport'], 'dims': row['dims'], 'echo': row['echo'],
                                'ignore_sighup': row['ignore_sighup'], 'env': row['env'], 'cwd': row['cwd']})


# ---------------------------------------------------------------------------------------------
# (d) lookups over a history

RUN_MOD = sys.modules['pexpect.run']
HIST_VIAS = ('spawn', 'run', 'popen')


class _PromptClose(pexpect.spawn):
    """pexpect.spawn itself; only close() first waits for the child that has already hung up, so that
    the 0.1 s pause ptyprocess makes before looking whether the child is gone is not needed (what
    run_pty does for a spawn of its own; pexpect.run() closes its child itself)"""

    def close(self, force=True):
        if not self.closed and getattr(self, 'ptyproc', None) is not None:
            try:
                self.wait()
            except pexpect.ExceptionPexpect:
                pass
            self.ptyproc.delayafterclose = 0
        return pexpect.spawn.close(self, force)


def run_run(command, **kw):
    """pexpect.run() to the child's end of file; returns None or the exception text"""
    saved = RUN_MOD.spawn
    RUN_MOD.spawn = _PromptClose
    try:
        pexpect.run(command, timeout=SPAWN_TIMEOUT, withexitstatus=True, **kw)
    except pexpect.ExceptionPexpect as e:
        return 'ExceptionPexpect: %s' % e
    except Exception as e:
        return '%s: %s' % (type(e).__name__, e)
    finally:
        RUN_MOD.spawn = saved
    return None


def launch_via(via, command, **kw):
    if via == 'spawn':
        return run_pty(command, **kw)
    if via == 'run':
        return run_run(command, **kw)
    return run_popen([command], **kw)


def read_report(path):
    if not os.path.exists(path):
        return None
    raw = open(path, 'rb').read().split(b'\0')
    return [x.decode('utf-8', 'surrogateescape') for x in raw[:-1]]


class HistWorld(object):
    """the file system of HistSpec in a fresh temporary directory: PATH directories d1..dn (created once:
    the PATH string is the same for every lookup of a walk), the entries of the model's `fs`, and a decoy
    directory of executables on the source that must not be consulted"""

    def __init__(self, ndirs, names, fs, env_given):
        self.root = os.path.realpath(tempfile.mkdtemp(prefix=TMP_PREFIX + 'hist-'))
        self.dirs = [os.path.join(self.root, 'd%d' % (i + 1)) for i in range(ndirs)]
        self.names = list(names)
        self.out = os.path.join(self.root, 'report')
        self.decoy = os.path.join(self.root, 'decoy')
        os.mkdir(os.path.join(self.root, 'tg'))
        os.mkdir(self.decoy)
        for d in self.dirs:
            os.mkdir(d)
        for n in self.names:
            self.script(os.path.join(self.decoy, self.filename(n)), 'decoy-' + n, 0o755)
        self.pathvalue = os.pathsep.join(self.dirs)
        if env_given:
            self.env = {'PATH': self.pathvalue, 'VERIF_PROBE_OUT': self.out}
            self.environ_path = self.decoy
        else:
            self.env = None
            self.environ_path = self.pathvalue
        for d in range(1, ndirs + 1):
            for n in self.names:
                self.set(d, n, 'missing', fs[d - 1][n])

    @staticmethod
    def filename(n):
        return 'prog-' + n

    def path(self, d, n):
        return os.path.join(self.dirs[d - 1], self.filename(n))

    def tag(self, d, n):
        return 'd%d-%s' % (d, n)

    @staticmethod
    def script(p, tag, mode):
        with open(p, 'w') as f:
            f.write(SCRIPT % tag)
        os.chmod(p, mode)

    def set(self, d, n, old, new):
        """the model's Mutate(d, n, new)"""
        p = self.path(d, n)
        if old in ('file', 'exec') and new in ('file', 'exec'):
            os.chmod(p, 0o755 if new == 'exec' else 0o644)       # gains / loses the x bit: the file stays the file
            return
        if old == 'dir':
            os.rmdir(p)
        elif old != 'missing':
            os.unlink(p)
        if new == 'dir':
            os.mkdir(p)
        elif new in ('file', 'exec'):
            self.script(p, self.tag(d, n), 0o755 if new == 'exec' else 0o644)
        elif new == 'ln_exec':
            t = os.path.join(self.root, 'tg', self.tag(d, n))
            self.script(t, self.tag(d, n), 0o755)
            os.symlink(t, p)
        elif new != 'missing':
            raise tlc.TLCError('HistWorld: unknown kind %r' % new)

    def __enter__(self):
        self.saved = (os.environ.get('PATH'), os.defpath, os.environ.get('VERIF_PROBE_OUT'))
        os.environ['PATH'] = self.environ_path
        os.environ['VERIF_PROBE_OUT'] = self.out
        os.defpath = self.decoy
        return self

    def __exit__(self, *a):
        path, defpath, po = self.saved
        for k, v in (('PATH', path), ('VERIF_PROBE_OUT', po)):
            if v is None:
                os.environ.pop(k, None)
            else:
                os.environ[k] = v
        os.defpath = defpath

    def close(self):
        shutil.rmtree(self.root, ignore_errors=True)


def hist_text(steps):
    """a walk as one line: 'd1/a:=exec  which(a)->2 ...'"""
    out = []
    for s in steps:
        if s['op'] == 'mutate':
            out.append('d%d/%s:=%s' % (s['d'], s['n'], s['k']))
        else:
            out.append('%s(%s)->%s' % (s['via'], s['n'], 'none' if s['want'] == 0 else 'd%d' % s['want']))
    return '  '.join(out)


def hist_walk(walk, rec, stats):
    """replays one behaviour of HistSpec in this process: every Mutate on the tree, every Lookup on which() or through
    a child; the expected answer of a lookup is the model's (first match on the layout at the time of the call)"""
    steps = walk['steps']
    w = HistWorld(walk['ndirs'], walk['names'], walk['init'], walk['envGiven'])
    try:
        with w:
            fs = copy.deepcopy(walk['init'])
            for i, s in enumerate(steps):
                n = s['n']
                if s['op'] == 'mutate':
                    w.set(s['d'], n, fs[s['d'] - 1][n], s['k'])
                    fs[s['d'] - 1][n] = s['k']
                    continue
                exp = w.path(s['want'], n) if s['want'] > 0 else None
                via = s['via']

                def describe(extra):
                    d = {'name': w.filename(n), 'via': via, 'PATH (same string for the whole walk)': 'd1' + ''.join(
                             ':d%d' % (k + 2) for k in range(len(w.dirs) - 1)) + ' under ' + w.root,
                         'PATH_given_by': 'env argument' if walk['envGiven'] else 'os.environ',
                         'layout_at_the_time_of_the_call': copy.deepcopy(fs),
                         'previous_answer_for_this_name': {-1: 'never looked up', 0: 'none'}.get(s['last'], 'd%d' % s['last']),
                         'want': exp, 'history': hist_text(steps[:i + 1]), 'size': i + 1}
                    d.update(extra)
                    return d
                sig = {'part': 'which-history', 'via': via, 'envGiven': walk['envGiven'],
                       'previous': 'never' if s['last'] < 0 else ('none' if s['last'] == 0 else 'found'),
                       'want': 'none' if s['want'] == 0 else 'found', 'same_as_previous': s['last'] == s['want']}
                case = {'kind': 'whichhist', 'walk': dict(walk, steps=steps[:i + 1])}
                if via == 'which':
                    stats['evaluations'] += 1
                    try:
                        got = pexpect.utils.which(w.filename(n), env=w.env)
                    except Exception as e:                      # noqa
                        got = '%s: %s' % (type(e).__name__, e)
                    if got != exp:
                        rec.fail('C13:which-history', case, detail=describe({'got': got}), signature=sig)
                    continue

                def once():
                    stats['evaluations'] += 1
                    try:
                        os.unlink(w.out)
                    except OSError:
                        pass
                    err = launch_via(via, w.filename(n), env=w.env)
                    rep = read_report(w.out)
                    if exp is None:
                        if err is None or rep is not None:
                            return {'want': 'no executable on PATH now: the launch must be refused', 'raised': err, 'child_report': rep}
                        return None
                    if err is not None:
                        return {'raised': err}
                    if rep is None or rep[0] != w.tag(s['want'], n) or (via != 'popen' and rep[1] != exp):
                        return {'child_report [tag, $0]': rep, 'want_tag': w.tag(s['want'], n)}
                    return None
                bad = stable(once)
                if bad is not None:
                    rec.fail('C13:which-history-child', case, detail=describe(bad), signature=sig)
    finally:
        w.close()


def fs_key(fs):
    return json.dumps(fs, sort_keys=True)


def hist_walks(dot, rng, budget, maxlen):
    """Walks over TLC's dumped state graph of HistSpec that together take every Lookup transition (a transition is
    identified by layout, previous answers and name; `hlook`, which only serves the invariants, is projected away).
    Each walk starts in an initial state (nothing looked up yet: it is replayed on a tree - and PATH string - of its
    own) and is at most about `maxlen` steps long.  `budget` Lookup transitions are additionally taken through a
    launch (spawn / run / PopenSpawn), most of them where the layout changed the answer since the previous lookup.
    Returns (walks, facts)."""
    g = stategraph.Graph(dot)
    nodes = g.nodes
    if not g.init or not nodes:
        raise tlc.TLCError('Launch/history: empty state graph in %s' % dot)
    any_node = nodes[g.init[0]]
    names = sorted(any_node['last'])
    ndirs = len(any_node['fs'])
    pk = {nid: (fs_key(st['fs']), tuple(st['last'][n] for n in names)) for nid, st in nodes.items()}
    look = {}
    adj = {}
    for nid, es in g.edges.items():
        lst = []
        for label, dst in es:
            name, args = stategraph.parse_action(label)
            if name == 'Lookup':
                look.setdefault(nid, {})[args[0]] = dst
                lst.append((('L', args[0]), dst))
            elif name == 'Mutate':
                lst.append((('M', args[0], args[1], args[2]), dst))
            else:
                raise tlc.TLCError('Launch/history: unexpected action %r in the state graph' % label)
        adj[nid] = lst
    want = {}
    for nid in nodes:
        for n in names:
            want[(pk[nid], n)] = nodes[look[nid][n]]['last'][n]
    targets = sorted(want)
    # the transitions that are also taken through a launch
    def previous(t):
        return t[0][1][names.index(t[1])]
    changed = [t for t in targets if previous(t) >= 0 and previous(t) != want[t]]
    same = [t for t in targets if previous(t) >= 0 and previous(t) == want[t]]
    first = [t for t in targets if previous(t) < 0]
    chosen = []
    for lst, share in ((changed, 0.6), (same, 0.2), (first, 0.2)):
        k = min(len(lst), int(budget * share + 0.5)) if budget < len(targets) else len(lst)
        chosen += rng.sample(lst, k)
    via_of = {t: HIST_VIAS[i % len(HIST_VIAS)] for i, t in enumerate(chosen)}
    init_of = {fs_key(nodes[nid]['fs']): nid for nid in g.init}
    uncovered = set(targets)

    # A name that has been looked up never becomes "never looked up" again: a walk can take the transitions whose
    # previous answers include "never" only before it looks that name up.  So a walk exhausts the transitions of its
    # present never-set (without looking those names up) before it shrinks the set.
    def mask_of(key):
        return frozenset(n for n, v in zip(names, key[1]) if v < 0)
    cnt_a = collections.Counter()      # uncovered transitions by never-set, the looked-up name not in the set
    cnt_b = collections.Counter()      # ... the looked-up name in the set (its first lookup)
    for t in targets:
        (cnt_b if t[1] in mask_of(t[0]) else cnt_a)[mask_of(t[0])] += 1

    def cover(t):
        if t in uncovered:
            uncovered.discard(t)
            (cnt_b if t[1] in mask_of(t[0]) else cnt_a)[mask_of(t[0])] -= 1

    def step_of(edge, src, dst, via='which'):
        if edge[0] == 'M':
            return {'op': 'mutate', 'd': edge[1], 'n': edge[2], 'k': edge[3]}
        n = edge[1]
        cover((pk[src], n))
        return {'op': 'lookup', 'via': via, 'n': n, 'last': nodes[src]['last'][n], 'want': nodes[dst]['last'][n]}

    def nearest(src, keep, goal_names):
        """shortest path (list of (src, edge, dst)) to a state with an uncovered Lookup transition of a name in
        goal_names, not looking up any name of `keep` on the way"""
        seen = {src}
        frontier = [src]
        back = {}
        while frontier:
            nxt = []
            for nid in frontier:
                for edge, dst in adj[nid]:
                    if dst in seen or (edge[0] == 'L' and edge[1] in keep):
                        continue
                    seen.add(dst)
                    back[dst] = (nid, edge)
                    if any((pk[dst], n) in uncovered for n in goal_names):
                        path = []
                        cur = dst
                        while cur != src:
                            prev, e = back[cur]
                            path.append((prev, e, cur))
                            cur = prev
                        return path[::-1]
                    nxt.append(dst)
            frontier = nxt
        return None

    def plan(nid):
        """('take', name) | ('go', path) | None"""
        mask = mask_of(pk[nid])
        rest = [n for n in names if n not in mask]
        here = [n for n in rest if (pk[nid], n) in uncovered]
        if here:
            return ('take', rng.choice(here))
        if cnt_a[mask] > 0:
            path = nearest(nid, mask, rest)
            if path:
                return ('go', path)
        here = [n for n in mask if (pk[nid], n) in uncovered]
        if here:
            return ('take', rng.choice(sorted(here)))
        if cnt_b[mask] > 0:
            path = nearest(nid, mask, sorted(mask))
            if path:
                return ('go', path)
        if any((cnt_a[m] > 0 or cnt_b[m] > 0) and m < mask for m in set(cnt_a) | set(cnt_b)):
            path = nearest(nid, (), names)
            if path:
                return ('go', path)
        return None
    walks = []
    cur_fs = fs_key([{n: 'missing' for n in names} for _ in range(ndirs)])
    while uncovered:
        nid = init_of[cur_fs]
        steps = []
        while len(steps) < maxlen:
            p = plan(nid)
            if p is None:
                break
            if p[0] == 'take':
                n = p[1]
                t = (pk[nid], n)
                vias = ['which'] + ([via_of[t]] if t in via_of else [])
                rng.shuffle(vias)          # a launch is sometimes the first lookup in that state, sometimes the second
                for via in vias:
                    dst = look[nid][n]
                    steps.append(step_of(('L', n), nid, dst, via))
                    nid = dst
                continue
            path = p[1]
            if steps and len(steps) + len(path) > maxlen:
                break
            for src, edge, dst in path:
                steps.append(step_of(edge, src, dst))
            nid = path[-1][2]
        if not steps:
            raise tlc.TLCError('Launch/history: %d Lookup transitions cannot be reached from an initial state' % len(uncovered))
        init_fs = json.loads(cur_fs)
        walks.append({'ndirs': ndirs, 'names': names, 'envGiven': len(walks) % 2 == 0, 'init': init_fs, 'steps': steps})
        cur_fs = fs_key(nodes[nid]['fs'])
    facts = {'states': len(nodes), 'edges': g.n_edges(), 'lookup_transitions': len(targets), 'answer_changed': len(changed),
             'answer_same': len(same), 'first_lookup': len(first), 'launched': len(via_of), 'ndirs': ndirs, 'names': names,
             'kinds': sorted(set(k for st in nodes.values() for d in st['fs'] for k in d.values()))}
    return walks, facts


# ---------------------------------------------------------------------------------------------
# (e) the cwd argument as a path

class CwdWorld(object):
    """the world of CwdSpec under a fresh temporary directory; every directory holds a marker with its name in the model"""
    LAYOUT = 'U/top=T U/top/real=R U/top/real/sub=S U/top/other=O; U/top/other/link -> ../real/sub; U/top/lnreal -> real'

    def __init__(self):
        self.base = os.path.realpath(tempfile.mkdtemp(prefix=TMP_PREFIX + 'cwd-'))
        self.out = os.path.join(self.base, 'report')
        self.probe = os.path.join(self.base, 'bin', 'cwdprobe')
        os.mkdir(os.path.join(self.base, 'bin'))
        shutil.copyfile(os.path.join(PEERS, 'cwd_probe.sh'), self.probe)
        os.chmod(self.probe, 0o755)
        u = os.path.join(self.base, 'U')
        self.node = {'U': u, 'T': os.path.join(u, 'top'), 'R': os.path.join(u, 'top', 'real'),
                     'S': os.path.join(u, 'top', 'real', 'sub'), 'O': os.path.join(u, 'top', 'other')}
        for k in ('U', 'T', 'R', 'S', 'O'):
            os.mkdir(self.node[k])
            with open(os.path.join(self.node[k], '.verif_node'), 'w') as f:
                f.write(k + '\n')
        os.symlink(os.path.join('..', 'real', 'sub'), os.path.join(self.node['O'], 'link'))
        os.symlink('real', os.path.join(self.node['T'], 'lnreal'))
        # how the caller enters its own directory
        self.start = {'T': self.node['T'], 'S_via_link': os.path.join(self.node['T'], 'other', 'link')}

    def cwd_string(self, r):
        rel = '/'.join(r['comps']) + ('/' if r['slash'] else '')
        return (self.node['T'] + '/' + rel) if r['abs'] else rel

    def close(self):
        shutil.rmtree(self.base, ignore_errors=True)


def cwd_row(r, world, transports, rec, stats, n=0):
    """one row of CwdTable: from the caller's directory, launch with cwd=<the path>; the child must be in r['want']"""
    cwd = world.cwd_string(r)
    want_dir = world.node[r['want']]
    here = os.open('.', os.O_RDONLY)
    saved = os.environ.get('VERIF_PROBE_OUT')
    try:
        os.chdir(world.start[r['start']])
        # binding: the materialised world resolves this path as the model does (the kernel is asked directly)
        try:
            kernel = open(os.path.join(cwd, '.verif_node')).read().strip()
        except OSError as e:
            kernel = 'OSError: %s' % e
        if kernel != r['want'] and not r.get('selftest'):
            raise tlc.TLCError('Launch/cwd: from %s the kernel resolves %r to %s, the model to %s' % (r['start'], cwd, kernel, r['want']))
        os.environ['VERIF_PROBE_OUT'] = world.out
        for transport in transports:
            env = None if n % 2 == 0 else {'VERIF_PROBE_OUT': world.out}

            def once():
                stats['evaluations'] += 1
                try:
                    os.unlink(world.out)
                except OSError:
                    pass
                err = launch_via(transport, world.probe, cwd=cwd, env=env)
                rep = read_report(world.out)
                if err is not None:
                    return {'raised': err}
                if rep is None:
                    return {'problem': 'the child ended without reporting'}
                if rep != [r['want'], want_dir]:
                    return {'child_is_in': rep[1] if len(rep) > 1 else rep, 'marker_found_there': rep[0] if rep else None}
                return None
            bad = stable(once)
            if bad is not None:
                bad.update({'cwd_argument': cwd, 'callers_directory': os.getcwd(), 'caller_entered_it_as': world.start[r['start']],
                            'want_child_in': want_dir, 'world': CwdWorld.LAYOUT + ' (U = %s)' % world.node['U'],
                            'size': len(cwd)})
                rec.fail('C13:cwd-path', {'kind': 'cwdpath', 'row': r, 'transport': transport, 'n': n}, detail=bad,
                         signature={'part': 'cwd-path', 'transport': transport, 'abs': r['abs'], 'start': r['start'],
                                    'slash': r['slash'], 'textual_normalisation_differs': r['lex'] != r['want']})
    finally:
        os.fchdir(here)
        os.close(here)
        if saved is None:
            os.environ.pop('VERIF_PROBE_OUT', None)
        else:
            os.environ['VERIF_PROBE_OUT'] = saved


# ---------------------------------------------------------------------------------------------
# TLC

def split_cfg(ctx, name, lenfor, styles, seps, dev='{}'):
    return tlc.write_cfg(os.path.join(ctx.work, name), spec='SplitSpec',
                         constants=[('LenFor', '<- ' + lenfor), ('Styles', styles), ('Seps', '<- ' + seps), ('Dev', '= ' + dev),
                                    ('MaxDirs', '= 1')], invariants=SPLIT_INVS)


def need(res, what, out_file=None):
    if not res['ok'] or (out_file and not os.path.exists(out_file)):
        raise tlc.TLCError('%s: TLC failed (violated=%s rc=%s timed_out=%s), see %s' % (
            what, res['violated'], res['rc'], res['timed_out'], res['out']))
    return res


def need_actions(res, names, what):
    missing = [a for a in names if res['coverage'].get(a, (0, 0))[1] == 0]
    if missing:
        raise tlc.TLCError('%s: action(s) never taken: %s (vacuous model), see %s' % (what, ', '.join(missing), res['out']))


def hist_cfg(ctx, name, spec, invs, hdirs=2, hnames='{"a", "b"}', hkinds='{"missing", "dir", "file", "exec"}', maxcomps=3, dev='{}'):
    return tlc.write_cfg(os.path.join(ctx.work, name), spec=spec,
                         constants=[('LenFor', '<- MCLenTiny'), ('Styles', '<- MCAllStyles'), ('Seps', '<- MCAllSeps'),
                                    ('Dev', '= ' + dev), ('MaxDirs', '= 1'), ('HNames', '= ' + hnames), ('HDirs', '= %d' % hdirs),
                                    ('HKinds', '= ' + hkinds), ('MaxComps', '= %d' % maxcomps)], invariants=invs)


def model_check(ctx):
    """runs TLC on the parts; returns (runs, paths of the split tables, cases per table, which table, config table,
    dumped history graphs, cwd table).  The small runs go side by side with the large one (split)."""
    cfg_out = os.path.join(ctx.work, 'config.json')
    which_out = os.path.join(ctx.work, 'which.json')
    split_out = os.path.join(ctx.work, 'split_quick.json')
    cwd_out = os.path.join(ctx.work, 'cwd.json')
    # history worlds: (tag, directories, names, kinds)
    hist_worlds = [('h2', 2, '{"a", "b"}', '{"missing", "dir", "file", "exec"}' if ctx.quick() else
                    '{"missing", "dir", "file", "exec", "ln_exec"}'),
                   ('h3', 3, '{"a"}', '{"missing", "dir", "file", "exec"}')]
    jobs = collections.OrderedDict()
    jobs['config'] = lambda: tlc.run('MCLaunch', 'Launch_config.cfg', ctx.work, workers=2, timeout=300, env={'LAUNCH_CONFIG_OUT': cfg_out},
                                     outname='config.out')
    jobs['which'] = lambda: tlc.run('MCLaunch', 'Launch_which.cfg', ctx.work, workers=2, timeout=300, coverage=True,
                                    env={'LAUNCH_WHICH_OUT': which_out}, outname='which.out')
    jobs['split-asis'] = lambda: tlc.run('MCLaunch', 'Launch_split_asis.cfg', ctx.work, workers=2, timeout=300, outname='asis.out',
                                         only='RoundTrip')
    jobs['split-quick'] = lambda: tlc.run('MCLaunch', 'Launch_split_quick.cfg', ctx.work, workers=3, timeout=600, coverage=True,
                                          env={'LAUNCH_SPLIT_OUT': split_out}, outname='split_quick.out')
    dots = []
    for tag, hdirs, hnames, hkinds in hist_worlds:
        dot = os.path.join(ctx.work, 'hist_%s.dot' % tag)
        dots.append((tag, dot))
        cfg = ('LaunchHist_hist.cfg' if (tag == 'h2' and ctx.quick()) else
               hist_cfg(ctx, 'hist_%s.cfg' % tag, 'HistSpec', HIST_INVS, hdirs, hnames, hkinds))
        jobs['hist-' + tag] = (lambda cfg=cfg, dot=dot, tag=tag: tlc.run(
            'MCLaunchHist', cfg, ctx.work, workers=2, timeout=900, coverage=True, extra=['-dump', 'dot,actionlabels', dot],
            outname='hist_%s.out' % tag))
    memo_cfg = hist_cfg(ctx, 'hist_memo.cfg', 'HistSpec', HIST_INVS, dev='{"which_memo"}')
    jobs['hist-memo'] = lambda: tlc.run('MCLaunchHist', memo_cfg, ctx.work, workers=2, timeout=300, outname='hist_memo.out',
                                        only='HistFirstMatch')
    maxcomps = 3 if ctx.quick() else 4
    cwd_cfg = 'LaunchHist_cwd.cfg' if ctx.quick() else hist_cfg(ctx, 'cwd.cfg', 'CwdSpec', CWD_INVS, 1, '{"a"}', '{"missing"}', maxcomps)
    jobs['cwd'] = lambda: tlc.run('MCLaunchHist', cwd_cfg, ctx.work, workers=2, timeout=900, coverage=True,
                                  env={'LAUNCH_CWD_OUT': cwd_out}, outname='cwd.out')
    lex_cfg = hist_cfg(ctx, 'cwd_lexical.cfg', 'CwdSpec', CWD_INVS, 1, '{"a"}', '{"missing"}', 3, dev='{"cwd_lexical"}')
    jobs['cwd-lexical'] = lambda: tlc.run('MCLaunchHist', lex_cfg, ctx.work, workers=2, timeout=300, outname='cwd_lexical.out',
                                          only='CwdAsRequested')
    with ThreadPoolExecutor(max_workers=len(jobs)) as ex:
        futs = [(name, ex.submit(fn)) for name, fn in jobs.items()]
        done = collections.OrderedDict((name, f.result()) for name, f in futs)
    runs = []

    r = need(done['config'], 'Launch/config', cfg_out)
    runs.append(('config', r))
    ctx.note('TLC ConfigSpec: %d rows, invariants DefaultDims Independent hold (%.0fs)' % (r['distinct'], r['wall_s']))
    r = need(done['which'], 'Launch/which', which_out)
    need_actions(r, WHICH_ACTIONS, 'Launch/which')
    runs.append(('which', r))
    ctx.note('TLC WhichSpec: %d states, %d transitions, invariants WhichFirstMatch EnvPathWins DefaultOnlyWhenNoPath '
             'OnlyExecutables NothingEarlier hold (%.0fs)' % (r['distinct'], r['generated'], r['wall_s']))
    # model sensitivity: the splitter as it is upstream (starts inside an argument) must break RoundTrip
    r = done['split-asis']
    if r['violated'] != 'RoundTrip':
        raise tlc.TLCError('Launch/split: with deviation leading_ws TLC did not refute RoundTrip (%s), see %s' % (r['violated'], r['out']))
    runs.append(('split-asis', r))
    ctx.note('model sensitivity: with Dev={"leading_ws"} (initial state "basic", as upstream) TLC refutes RoundTrip')
    # the history part: the dumped graphs are replayed below
    for tag, dot in dots:
        r = need(done['hist-' + tag], 'Launch/history ' + tag, dot)
        need_actions(r, HIST_ACTIONS, 'Launch/history ' + tag)
        runs.append(('hist-' + tag, r))
        ctx.note('TLC HistSpec %s: %d states, %d transitions (Mutate %d, Lookup %d), invariants %s hold (%.0fs)' % (
            tag, r['distinct'], r['generated'], r['coverage']['Mutate'][1], r['coverage']['Lookup'][1], ' '.join(HIST_INVS), r['wall_s']))
    r = done['hist-memo']
    if r['violated'] != 'HistFirstMatch':
        raise tlc.TLCError('Launch/history: with deviation which_memo TLC did not refute HistFirstMatch (%s), see %s' % (r['violated'], r['out']))
    runs.append(('hist-memo', r))
    ctx.note('model sensitivity: with Dev={"which_memo"} (the previous answer is returned while it still is an executable) TLC refutes '
             'HistFirstMatch')
    r = need(done['cwd'], 'Launch/cwd', cwd_out)
    need_actions(r, CWD_ACTIONS, 'Launch/cwd')
    runs.append(('cwd', r))
    ctx.note('TLC CwdSpec paths of 1..%d components: %d states, invariants %s hold (%.0fs)' % (
        maxcomps, r['distinct'], ' '.join(CWD_INVS), r['wall_s']))
    r = done['cwd-lexical']
    if r['violated'] != 'CwdAsRequested':
        raise tlc.TLCError('Launch/cwd: with deviation cwd_lexical TLC did not refute CwdAsRequested (%s), see %s' % (r['violated'], r['out']))
    runs.append(('cwd-lexical', r))
    ctx.note('model sensitivity: with Dev={"cwd_lexical"} (x/.. collapsed textually before the kernel sees the path) TLC refutes CwdAsRequested')
    # the quick bound, with coverage (vacuity guard) - both tiers
    split_outs = []
    out = split_out
    r = need(done['split-quick'], 'Launch/split quick', out)
    need_actions(r, SPLIT_ACTIONS, 'Launch/split')
    runs.append(('split-quick', r))
    ctx.note('TLC SplitSpec LenFor=<<2,2,1>>: %d states, %d cases (Finish transitions), invariants %s hold (%.0fs)' % (
        r['distinct'], r['coverage']['Finish'][1], ' '.join(SPLIT_INVS), r['wall_s']))
    ncases = {out: r['coverage']['Finish'][1]}
    if ctx.quick():
        split_outs.append(out)
    else:
        # the full bound <<2,2,2>> in nine partitions (style x separator), four TLC processes at a time
        jobs = []
        for style in ('backslash', 'single', 'double'):
            for sep in ('MCSepSpace', 'MCSepTab', 'MCSepTwo'):
                tag = '%s_%s' % (style, sep[5:].lower())
                cfg = split_cfg(ctx, 'split_%s.cfg' % tag, 'MCLenThorough', '= {"%s"}' % style, sep)
                jobs.append((tag, cfg, os.path.join(ctx.work, 'split_%s.json' % tag)))

        def job(j):
            tag, cfg, o = j
            return j, tlc.run('MCLaunch', cfg, ctx.work, workers=2, timeout=1200, env={'LAUNCH_SPLIT_OUT': o},
                              outname='split_%s.out' % tag, heap='5g')
        with ThreadPoolExecutor(max_workers=4) as ex:
            for (tag, cfg, o), r in ex.map(job, jobs):
                need(r, 'Launch/split ' + tag, o)
                runs.append(('split-' + tag, r))
                split_outs.append(o)
                ncases[o] = None
        tot = sum(r['distinct'] for n, r in runs if n.startswith('split-') and n not in ('split-asis', 'split-quick'))
        ctx.note('TLC SplitSpec LenFor=<<2,2,2>> in 9 partitions: %d states, invariants hold' % tot)
    return runs, split_outs, ncases, json.load(open(which_out)), json.load(open(cfg_out)), dots, json.load(open(cwd_out))


# ---------------------------------------------------------------------------------------------

def new_stats():
    return {'evaluations': 0}


def split_table_worker(job):
    """replays one emitted table on split_command_line; returns counts, the kept failures and a seeded sample"""
    path, seed, per_file = job
    table = json.load(open(path))
    rec = Rec(None)
    st = new_stats()
    nprot = 0
    for r in table:
        split_row_inprocess(r, rec, st)
        # non-trivial and distinct: something needed protection, and the command line is not a copy of another
        # row's (a single argument without leading / trailing whitespace does not show its separator)
        if r['pr'] and not (len(r['a']) == 1 and not r['l'] and not r['t'] and r['p'] != '_'):
            nprot += 1
    idx = sorted(random.Random(seed).sample(range(len(table)), min(per_file, len(table))))
    return {'path': path, 'nrows': len(table), 'nprot': nprot, 'evaluations': st['evaluations'],
            'totals': dict(rec.totals), 'kept': rec.kept, 'sample': [table[i] for i in idx],
            'first': [table[0], table[len(table) // 2], table[-1]]}


def probe_ctx():
    p = common.Ctx.__new__(common.Ctx)
    p.failures = []
    p.drift = 0
    p.fail = lambda *a, **k: p.failures.append(a)
    return p


def clauses_failing(fn):
    """runs one test function against a private recorder; returns the set of clauses it reports"""
    p = probe_ctx()
    rec = Rec(p)
    fn(rec)
    rec.flush()
    return set(a[0] for a in p.failures)


def blind(cands, run, corrupt, clause, limit=8):
    """The machinery is blind on `clause` when a row passes under its genuine expectation AND under a corrupted
    one.  Rows on which the implementation itself fails the genuine expectation say nothing about the machinery
    (those failures are reported by the check proper) and the next candidate is tried.
    Returns 'ok' | 'blind' | 'skipped' (no candidate passes its genuine expectation)."""
    for r in cands[:limit]:
        if clause in run(r):
            continue
        return 'ok' if clause in run(corrupt(r)) else 'blind'
    return 'skipped'


def self_test(ctx, sample, which_table, config_table, abench, cbench, walks, cwd_table, cworld):
    """a wrong expectation in each table must be noticed by the same test functions"""
    def bad_split(r):
        b = dict(r)
        b['a'] = [r['a'][0] + 'x'] + list(r['a'][1:])
        return b

    def bad_which(r):
        b = json.loads(json.dumps(r))
        b['want'] = {'k': 'found', 'src': r['want']['src'], 'idx': 1}    # claim the non-executable first entry wins
        return b

    def bad_config(r):
        b = json.loads(json.dumps(r))
        w = r['want']
        b['want'].update({'rows': w['cols'], 'cols': w['rows'], 'echo': not w['echo'],
                          'sighup': 'default' if w['sighup'] == 'ignored' else 'ignored',
                          'cwd': 'parent' if w['cwd'] == 'tmp' else 'tmp', 'env': 'inherited'})
        return b
    splits = [r for r in sample if not r['l']] + [r for r in sample if r['l']]
    whichs = [x for x in which_table if x['want']['k'] == 'found' and x['want']['idx'] == 2]
    configs = [x for x in config_table if x['row']['transport'] == 'pty' and x['row']['dims'] == 'small'
               and x['row']['env'] == 'without_path']
    tree = os.path.join(ctx.work, 'selftest_tree')
    verdicts = collections.OrderedDict()
    verdicts['C13:split-roundtrip'] = blind(
        splits, lambda r: clauses_failing(lambda rec: split_row_inprocess(r, rec, new_stats(), reps=('std',))),
        bad_split, 'C13:split-roundtrip')
    verdicts['C13:argv-in-child'] = blind(
        splits, lambda r: clauses_failing(lambda rec: split_row_child(r, 'pty', abench, rec, new_stats())),
        bad_split, 'C13:argv-in-child')
    for clause in ('C13:which', 'C13:which-child'):
        verdicts[clause] = blind(
            whichs, lambda r: clauses_failing(lambda rec: which_row(r, tree, rec, new_stats(), transports=('pty',))),
            bad_which, clause)
    memo = {}

    def run_config(r):
        key = json.dumps(r, sort_keys=True)
        if key not in memo:
            memo[key] = clauses_failing(lambda rec: config_row(r, cbench, rec, new_stats()))
            if 'C13:launch' in memo[key]:          # no report at all: every clause counts as failed
                memo[key] |= {'C13:cwd', 'C13:env', 'C13:winsize', 'C13:echo', 'C13:sighup'}
        return memo[key]
    for clause in ('C13:cwd', 'C13:env', 'C13:winsize', 'C13:echo', 'C13:sighup'):
        verdicts[clause] = blind(configs, run_config, bad_config, clause)
    shutil.rmtree(tree, ignore_errors=True)

    # history: a walk cut after a lookup that finds something, with that lookup's expected directory changed
    def hist_cands(via):
        out = []
        for w in walks:
            for i, s_ in enumerate(w['steps']):
                if s_['op'] == 'lookup' and s_['via'] == via and s_['want'] > 0:
                    out.append(dict(w, steps=w['steps'][:i + 1]))
                    break
            if len(out) >= 8:
                break
        return out

    def bad_hist(w):
        b = json.loads(json.dumps(w))
        last = b['steps'][-1]
        last['want'] = last['want'] % w['ndirs'] + 1          # another directory of the PATH
        return b
    verdicts['C13:which-history'] = blind(
        hist_cands('which'), lambda w: clauses_failing(lambda rec: hist_walk(w, rec, new_stats())), bad_hist, 'C13:which-history')
    verdicts['C13:which-history-child'] = blind(
        hist_cands('spawn') + hist_cands('run'), lambda w: clauses_failing(lambda rec: hist_walk(w, rec, new_stats())), bad_hist,
        'C13:which-history-child')

    def bad_cwd(r):
        b = dict(r)
        b['want'] = r['lex']                 # claim the textually normalised directory
        b['selftest'] = True
        return b
    cwds = [r for r in cwd_table if r['lex'] != r['want'] and r['lex'] in cworld.node]
    verdicts['C13:cwd-path'] = blind(
        cwds, lambda r: clauses_failing(lambda rec: cwd_row(r, cworld, ('spawn',), rec, new_stats())), bad_cwd, 'C13:cwd-path')
    blinds = [c for c, v in verdicts.items() if v == 'blind']
    if blinds:
        raise tlc.TLCError('C13 self-test: a corrupted expectation was accepted for %s' % ', '.join(blinds))
    skipped = [c for c, v in verdicts.items() if v == 'skipped']
    ctx.note('binding self-test: a corrupted expectation is rejected for %s%s' % (
        ' '.join(c for c, v in verdicts.items() if v == 'ok'),
        ('; not testable here (the implementation fails every candidate row, reported above): ' + ' '.join(skipped)) if skipped else ''))


def replay(ctx):
    d = json.load(open(ctx.replay))
    c = d['case']
    rec = Rec(ctx)
    st = new_stats()
    prepare_process()
    os.chdir(ctx.work)
    if c['kind'] == 'split':
        split_row_inprocess(c['row'], rec, st, reps=(c['rep'],))
    elif c['kind'] == 'argv':
        split_row_child(c['row'], c['transport'], ArgvBench(ctx.work), rec, st, encoding=c.get('encoding'))
    elif c['kind'] == 'unencodable':
        unencodable_argument_cases(ArgvBench(ctx.work), rec, st, only=c['case'])
    elif c['kind'] == 'which':
        which_row(c['row'], os.path.join(ctx.work, 'tree'), rec, st, transports=tuple(c.get('transports', ())))
    elif c['kind'] == 'config':
        config_row(c['row'], ConfigBench(ctx.work), rec, st, ctx)
    elif c['kind'] == 'whichhist':
        hist_walk(c['walk'], rec, st)
    elif c['kind'] == 'cwdpath':
        world = CwdWorld()
        try:
            cwd_row(c['row'], world, (c['transport'],), rec, st, c.get('n', 0))
        finally:
            world.close()
    else:
        raise tlc.TLCError('unknown replay kind %r' % c['kind'])
    rec.flush()
    print('  replayed %s case: %d implementation test(s), %d failure(s)' % (c['kind'], st['evaluations'], len(ctx.failures)))
    for f in ctx.failures:
        print('  %s: %s' % (f.clause, json.dumps(f.detail, default=str)[:600]))
    status, _, _ = common.conclude(ctx)
    return status


def prepare_process():
    # ignore_sighup=False means "the default disposition": make sure that is what this process has to hand down
    signal.signal(signal.SIGHUP, signal.SIG_DFL)


def run(ctx):
    if ctx.replay:
        return replay(ctx)
    print('[C13] launch fidelity - tier %s seed %d' % (ctx.tier, ctx.seed), flush=True)
    prepare_process()
    os.chdir(ctx.work)
    t0 = time.time()
    runs, split_outs, ncases, which_table, config_table, hist_dots, cwd_table = model_check(ctx)
    t_tlc = time.time() - t0
    rec = Rec(ctx)
    rng = random.Random(ctx.seed * 1009 + 13)

    # (a) every split case on split_command_line (one worker process per table, so that this process stays
    # small: it forks thousands of children below); a seeded sample through real children
    t0 = time.time()
    st_split = new_stats()
    nrows = nprot = 0
    want_sample = 300 if ctx.quick() else 3000
    per_file = -(-want_sample // len(split_outs))
    sample = []
    first_rows = []
    jobs = [(path, ctx.seed * 1009 + 13 + k, per_file) for k, path in enumerate(split_outs)]
    with ProcessPoolExecutor(max_workers=min(4, len(jobs)), mp_context=multiprocessing.get_context('fork')) as ex:
        for res in ex.map(split_table_worker, jobs):
            if ncases.get(res['path']) is not None and ncases[res['path']] != res['nrows']:
                raise tlc.TLCError('Launch/split: %d cases went through the machine but the table has %d rows' % (
                    ncases[res['path']], res['nrows']))
            nrows += res['nrows']
            nprot += res['nprot']
            st_split['evaluations'] += res['evaluations']
            rec.absorb(res['totals'], res['kept'])
            sample += res['sample']
            first_rows = first_rows or res['first']
    t_split = time.time() - t0
    fails_split = rec.total()
    ctx.note('split: %d cases (%d distinct command lines with a protected character) x 2 sets of representatives = %d calls of split_command_line, '
             '%d disagree (%.0fs)' % (nrows, nprot, st_split['evaluations'], fails_split, t_split))
    t0 = time.time()
    abench = ArgvBench(ctx.work)
    st_argv = new_stats()
    npty = npopen = nlist = 0
    for n, r in enumerate(sample):
        split_row_child(r, 'pty', abench, rec, st_argv, encoding=(None, 'utf-8')[n % 2])
        npty += 1
        if len(r['a']) > 1:
            split_row_child(r, 'pty-list', abench, rec, st_argv, encoding=(None, 'utf-8')[n % 2])
            nlist += 1
        if r['px']:
            split_row_child(r, 'popen', abench, rec, st_argv, encoding=(None, 'utf-8')[n % 2])
            npopen += 1
    unencodable_argument_cases(abench, rec, st_argv)
    t_argv = time.time() - t0
    fails_argv = rec.total() - fails_split
    ctx.note('argv in child: %d sampled cases through pexpect.spawn(command line), %d of them (same meaning for shlex) through '
             'PopenSpawn, %d in list form spawn(program, args); %d real launches, %d cases disagree (%.0fs)' % (
                 npty, npopen, nlist, st_argv['evaluations'], fails_argv, t_argv))

    # (b) every PATH layout on which(); through real children: all (thorough) or a seeded sample (quick)
    t0 = time.time()
    st_which = new_stats()
    nchild = 0
    child_idx = set(range(len(which_table))) if not ctx.quick() else set(rng.sample(range(len(which_table)), 400))
    if ctx.quick():      # the few rows about empty / missing PATH and explicit paths always go through a child
        child_idx |= set(i for i, r in enumerate(which_table) if r['world']['mode'] != 'name' or r['world']['src']['state'] != 'set')
    root = os.path.join(ctx.work, 'tree')
    for i, r in enumerate(which_table):
        tr = ('pty', 'popen') if i in child_idx else ()
        nchild += 1 if tr else 0
        which_row(r, root, rec, st_which, transports=tr)
    shutil.rmtree(root, ignore_errors=True)
    t_which = time.time() - t0
    fails_which = rec.total() - fails_split - fails_argv
    ctx.note('which: %d layouts materialised and resolved by which(); %d of them launched (pty, and PopenSpawn where PATH is set): '
             '%d implementation tests, %d disagree (%.0fs)' % (len(which_table), nchild, st_which['evaluations'], fails_which, t_which))

    # (c) every configuration row through a real child
    t0 = time.time()
    st_cfg = new_stats()
    cbench = ConfigBench(ctx.work)
    for r in config_table:
        config_row(r, cbench, rec, st_cfg, ctx)
    t_cfg = time.time() - t0
    fails_cfg = rec.total() - fails_split - fails_argv - fails_which
    ctx.note('config: %d rows, %d real launches, %d clause failures; preexec_fn effect missing (not part of the property): %d (%.0fs)' % (
        len(config_table), st_cfg['evaluations'], fails_cfg, ctx.drift, t_cfg))

    # (d) lookups over a history: walks over TLC's state graph, replayed in this process
    t0 = time.time()
    st_hist = new_stats()
    hist_facts = []
    hist_walk_list = []
    nsteps = nlook = nlaunch = 0
    for k, (tag, dot) in enumerate(hist_dots):
        hrng = random.Random(ctx.seed * 1009 + 131 + k)
        budget = (240 if tag == 'h2' else 60) if ctx.quick() else 4000
        walks, facts = hist_walks(dot, hrng, budget, maxlen=120)
        facts['tag'] = tag
        facts['walks'] = len(walks)
        hist_facts.append(facts)
        for w in walks:
            hist_walk(w, rec, st_hist)
            nsteps += len(w['steps'])
            nlook += sum(1 for s_ in w['steps'] if s_['op'] == 'lookup' and s_['via'] == 'which')
            nlaunch += sum(1 for s_ in w['steps'] if s_['op'] == 'lookup' and s_['via'] != 'which')
        hist_walk_list += walks
    t_hist = time.time() - t0
    fails_hist = rec.total() - fails_split - fails_argv - fails_which - fails_cfg
    ctx.note('which over a history: %s; %d walks (each on a tree and PATH string of its own, PATH by env argument / os.environ in turn), '
             '%d steps: %d changes of the tree (entry appears / disappears / chmod +-x / becomes a directory), %d lookups by which() '
             '(every Lookup transition), %d lookups by launching (spawn, run, PopenSpawn in turn; the child names the file it is); '
             '%d disagree (%.0fs)' % (
                 '; '.join('%s: %d PATH directories, names %s, %d Lookup transitions (%d where the answer changed since the previous '
                           'lookup of that name)' % (f['tag'], f['ndirs'], '/'.join(f['names']), f['lookup_transitions'], f['answer_changed'])
                           for f in hist_facts), len(hist_walk_list), nsteps, nsteps - nlook - nlaunch, nlook, nlaunch, fails_hist, t_hist))

    # (e) the cwd argument as a path
    t0 = time.time()
    st_cwd = new_stats()
    cworld = CwdWorld()
    try:
        crng = random.Random(ctx.seed * 1009 + 137)
        ndiff = 0
        for n, r in enumerate(cwd_table):
            differs = r['lex'] != r['want']
            ndiff += differs
            if ctx.quick() and not differs:
                tr = ('spawn', ('run', 'popen')[crng.randrange(2)])    # spawn and one more, drawn per row
            else:
                tr = HIST_VIAS                                         # all three
            cwd_row(r, cworld, tr, rec, st_cwd, n)
        t_cwd = time.time() - t0
        fails_cwd = rec.total() - fails_split - fails_argv - fails_which - fails_cfg - fails_hist
        ctx.note('cwd as a path: %d paths that name a directory (relative and absolute, 1..%d components over real/sub/other/link/lnreal/../. , '
                 'with and without trailing slash, caller in top or in real/sub entered through other/link; %d of them lead elsewhere when '
                 'normalised textually), each resolved by the kernel as by the model; %d launches (spawn, run, PopenSpawn), %d disagree (%.0fs)' % (
                     len(cwd_table), max(len(r['comps']) for r in cwd_table), ndiff, st_cwd['evaluations'], fails_cwd, t_cwd))

        # (f) binding self-test
        self_test(ctx, sample, which_table, config_table, abench, cbench, hist_walk_list, cwd_table, cworld)
    finally:
        cworld.close()

    rec.flush()
    if rec.total() > len(ctx.failures):
        ctx.note('%d failing implementation tests in total; %d kept for the report (at most %d per clause and signature)' % (
            rec.total(), len(ctx.failures), rec.cap))
        for (clause, sig), n in sorted(rec.totals.items()):
            ctx.note('  %s %s: %d' % (clause, sig, n))
    status, nviol, nknown = common.conclude(ctx)
    evaluations = sum(s['evaluations'] for s in (st_split, st_argv, st_which, st_cfg, st_hist, st_cwd))
    evidence.write('C13', ctx.tier, ctx.seed, 'model_checking', {
        'states': sum(r['distinct'] for _, r in runs), 'transitions': sum(r['generated'] for _, r in runs),
        'traces_validated_against_impl': nrows + len(which_table) + len(config_table) + len(hist_walk_list) + len(cwd_table),
        'samples': first_rows + [which_table[len(which_table) // 2], config_table[len(config_table) // 2],
                                 {'history_walk': hist_text(hist_walk_list[len(hist_walk_list) // 2]['steps'][:40])},
                                 cwd_table[len(cwd_table) // 2]],
        'evaluations': evaluations, 'distinct_nontrivial': nprot,
        'rule': 'one implementation test per TLC-emitted row: every split case on split_command_line under two sets of '
                'representative characters, a seeded sample through real pty / popen children; every PATH layout on which() '
                'and through real children; every configuration row through a real child; every Lookup transition of the dumped '
                'history graphs (layout x previous answers x name) on which() inside walks replayed in one process, a seeded sample '
                'of them through spawn / run / PopenSpawn; every cwd path of the table through real children (quick: spawn and one of '
                'run / PopenSpawn per path, all three where textual normalisation would lead elsewhere).  non-trivial = distinct command '
                'lines of split cases in which some argument contains a character that needs protection (whitespace, '
                'quote, backslash)',
        'exhaustive': True,
        'split_cases': nrows, 'split_calls': st_split['evaluations'], 'argv_children': st_argv['evaluations'],
        'which_layouts': len(which_table), 'which_tests': st_which['evaluations'], 'config_rows': len(config_table),
        'config_children': st_cfg['evaluations'], 'failing_tests_total': rec.total(),
        'history_graphs': hist_facts, 'history_walks': len(hist_walk_list), 'history_steps': nsteps, 'history_which_lookups': nlook,
        'history_launch_lookups': nlaunch, 'history_tests': st_hist['evaluations'],
        'cwd_paths': len(cwd_table), 'cwd_paths_textual_normalisation_differs': ndiff, 'cwd_children': st_cwd['evaluations'],
        'wall_s_parts': {'tlc': round(t_tlc, 1), 'split': round(t_split, 1), 'argv': round(t_argv, 1), 'which': round(t_which, 1),
                         'config': round(t_cfg, 1), 'history': round(t_hist, 1), 'cwd': round(t_cwd, 1)},
        'checker_cmd': ' ; '.join(r['cmd'] for _, r in runs), 'known_findings_hit': nknown, 'spec_drift': ctx.drift,
    }, assumptions=[
        'characters are represented by their class (ordinary ASCII, space, tab, the two quotes, backslash, non-ASCII letter); two '
        'concrete representatives per class are replayed',
        'inside double quotes a backslash is literal (what split_command_line does; its documentation is silent), so double-quoted '
        'cases containing a backslash are not sent through PopenSpawn, whose shlex reads them differently',
        'which(): os.defpath is rebound to a temporary directory for the duration of a test; the process runs as root on Linux, '
        'where X_OK needs an execute bit',
        'PopenSpawn resolves the program with subprocess (no which()); it is compared only where PATH is set and the name is bare',
        'ignore_sighup=False is checked with the harness itself holding the default SIGHUP disposition',
        'history: the PATH has 2 directories x 2 names (3 directories x 1 name in a second graph), entries are missing / directory / '
        'non-executable file / executable file (thorough: also a symbolic link to an executable); PATH directories themselves stay; '
        'each walk (<= ~120 steps) starts with nothing looked up on a fresh temporary tree, so that its replay file reproduces in a '
        'fresh process; pexpect.run() is launched with a spawn subclass whose close() waits for the child instead of pausing 0.1 s',
        'cwd: one world (top, top/real, top/real/sub, top/other, other/link -> ../real/sub, lnreal -> real) in a fresh temporary '
        'directory; paths that name no directory of the world are not launched (the property says nothing about them); the kernel is '
        'asked for every path and must agree with the model (else machinery failure); the property text does not say when cwd is '
        'resolved, so only launches at construction time are checked',
    ], wall_s=ctx.wall(), violations=(rec.total() - nknown) if nviol else 0)
    return status

"""C08 (send fidelity) and C11 (logging fidelity): one model, two checks.

 1. TLC checks spec/SendLog.tla in its whole-history configuration (every operation sequence up
    to the bound x payload classes x log configurations x bytes / utf-8 / utf-16; the
    sequence-level invariants PeerGotExactly, ReturnValue, LogSendExact, LogReadExact,
    DeliveredExact, LogAllInterleaved, EveryWriteFlushed, LogTypeIsApiType) and rejects the
    model's own mutants (separator twice, log after encoding, no flush, control byte logged but
    not sent, read not logged).
 2. The last-operation configuration of the same module (full payload classes, all log
    configurations) has a small state graph; it is dumped and EVERY transition becomes an
    implementation test: real objects (harness/sendlog_world.py: pty with a raw-mode reporting
    peer, PopenSpawn with the same peer on pipes, fdspawn on a socketpair end / a pty master,
    SocketSpawn on a socketpair) are walked along paths that cover every transition of the graph,
    each transition out of an initial state on a fresh object.  After every step the bytes the
    peer received (delimited by barrier markers), the values written to the three logs (value
    and type), the flush counts and the return value are compared with the successor state TLC
    computed, instantiated with concrete payloads.  interact() runs in-process with an outer pty
    playing the user.
 3. Binding self-tests: a corrupted expected state must be reported; a harness-side mutant object
    (sendline adding the separator twice / a log that is written after encoding) must be reported.
 4. The environment configurations of the same module (Env / Aw): the rest of the object's life between
    the sends.  'life': blocking reads that end in TIMEOUT (timeout 0 / small) or EOF or a match (timeout
    30 / None / default) before sends of small and larger-than-buffer payloads (up to 4 MB; the peer of a
    socket reads only once the sender's buffer is full, so a socket that a read left non-blocking shows on
    every run); the peer shuts its output side down and keeps reading (socket shutdown(SHUT_WR), Popen child
    pointing fd 1+2 at /dev/null; PopenSpawn's reader thread is joined first); the peer goes away, the caller
    closes the object, the peer does not read while a socket with a user timeout sends: send-family calls
    that FAIL - the model says which piece fails, what may have reached the peer (a proper prefix of that
    piece) and what the send log holds (every send() that was attempted, completely).  'await': awaited calls
    on the virtual-time asyncio loop of harness/vloop.py (matched, cancelled by task.cancel() /
    asyncio.wait_for, timed out) with child output arriving between two calls, mixed with blocking reads and
    sends; the read log must hold what the object has taken in, when it took it in.  Both have whole-history
    TLC runs (all 13 invariants), their own model mutants (socket left non-blocking, EOF closing the sending
    side, log after write, late output not logged) and last-operation graphs of which every transition is
    replayed on real objects like in 2.; binding self-tests in env_self_test().
"""
import asyncio, codecs, copy, json, os, random, sys, time, traceback
from multiprocessing import Pool
from multiprocessing.pool import ThreadPool
import pexpect
from .. import tlc, evidence, common, stategraph
from ..sendlog_world import (Rig, Machinery, payload, wire, api, api_type, CONTROL_TABLE, LETTERS, PUNCT, WIRE, ESCAPE, BIG_N,
                             STALL_TIMEOUT, NEVER)

sys.setrecursionlimit(100000)
INVS = ['PeerGotExactly', 'ReturnValue', 'NoSpuriousFailure', 'FailedSendPrefix', 'LogSendExact', 'FailedSendLogged', 'LogReadExact',
        'TakenExact', 'DeliveredExact', 'LogAllInterleaved', 'EveryWriteFlushed', 'LogTypeIsApiType', 'OnlyConfiguredLogs']
TRANSPORTS = ('pty', 'fd', 'popen', 'socket')
NEEDED = {
    'pty': {'Send', 'SendLine', 'Write', 'WriteLines', 'SendControl', 'SendEof', 'SendIntr', 'ReadDelivered',
            'EnterInteract', 'ExitInteract', 'InteractCopyOut', 'InteractCopyIn'},
    'popen': {'Send', 'SendLine', 'Write', 'WriteLines', 'SendEof', 'ReadDelivered'},
    'fd': {'Send', 'SendLine', 'Write', 'WriteLines', 'ReadDelivered'},
    'socket': {'Send', 'SendLine', 'Write', 'WriteLines', 'ReadDelivered'},
}
NEEDED_LIFE = {
    'pty': {'Send', 'SendLine', 'Write', 'WriteLines', 'ReadDelivered', 'ReadTimeout', 'CloseSelf'},
    'fd': {'Send', 'SendLine', 'Write', 'WriteLines', 'ReadDelivered', 'ReadTimeout', 'HalfCloseEof', 'PeerGone', 'CloseSelf'},
    'popen': {'Send', 'SendLine', 'Write', 'WriteLines', 'SendEof', 'ReadDelivered', 'ReadTimeout', 'HalfCloseEof', 'PeerGone'},
    'socket': {'Send', 'SendLine', 'Write', 'WriteLines', 'ReadDelivered', 'ReadTimeout', 'HalfCloseEof', 'PeerGone', 'CloseSelf', 'Stalled'},
}
NEEDED_AWAIT = {'Send', 'SendLine', 'Write', 'WriteLines', 'ReadDelivered', 'ReadTimeout', 'ARead', 'ACancel', 'ATimeout', 'Arrive'}
AWAIT_TRANSPORTS = ('pty', 'fd', 'socket')       # (PopenSpawn has no descriptor an asyncio transport could be put on)
BUGS = {'sep2': {'PeerGotExactly', 'LogSendExact', 'LogAllInterleaved', 'ReturnValue'},
        'logencoded': {'LogTypeIsApiType'},
        'noflush': {'EveryWriteFlushed'},
        'ctlnotsent': {'PeerGotExactly', 'ReturnValue'},
        'readnotlogged': {'LogReadExact', 'LogAllInterleaved'}}
# mutants of the environment configurations: (transport, part) and the invariants that may report them
ENV_BUGS = {'tmoleak': ('socket', 'life', {'NoSpuriousFailure'}),            # a read ending in TIMEOUT / EOF leaves the socket non-blocking
            'eofclosesstdin': ('popen', 'life', {'NoSpuriousFailure'}),      # EOF of the child's output closes the sending side too
            'logafterwrite': ('socket', 'life', {'FailedSendLogged'}),       # the send log is written after the write
            'latenotlogged': ('fd', 'await', {'LogReadExact', 'LogAllInterleaved'})}   # output arriving between two awaited calls is not logged
_WL = [0]          # which iterable form the next writelines() call gets
SEND_OPS = {'Send': 'send', 'SendLine': 'sendline', 'Write': 'write', 'WriteLines': 'writelines'}
ENV_OPS = {'ReadTimeout', 'HalfCloseEof', 'PeerGone', 'CloseSelf', 'Stalled', 'ARead', 'ACancel', 'ATimeout', 'Arrive'}
OWNER = {'C08': ('C08:',), 'C11': ('C11:',)}


def consts(transport, history, maxops, small, bug='none', logcfgs='LogCfgsAll', hlogcfgs='LogCfgsSmall'):
    if small:
        c = [('Payloads', '<- SmallPayloads'), ('ReadPayloads', '<- SmallRead'), ('KeyPayloads', '<- SmallKeys'),
             ('Lists', '<- SmallLists'), ('Controls', '<- SmallControls'), ('LogCfgs', '<- %s' % hlogcfgs)]
    else:
        c = [('Payloads', '<- AllPayloads'), ('ReadPayloads', '<- ReadAll'), ('KeyPayloads', '<- KeysAll'),
             ('Lists', '<- ListsAll'), ('Controls', '<- ControlsAll'), ('LogCfgs', '<- %s' % logcfgs)]
    return c + [('Modes', '<- ModesAll'), ('Transport', '= "%s"' % transport), ('MaxOps', '= %d' % maxops),
                ('History', '= %s' % ('TRUE' if history else 'FALSE')), ('Bug', '= "%s"' % bug), ('Env', '= FALSE'), ('Aw', '= FALSE'), ('MaxCarry', '= 0')]


def env_consts(transport, part, history, maxops, bug='none', carry=1, logcfgs='LogCfgsEnv'):
    """two more configurations of the same module.  part 'life': reads ending in TIMEOUT / EOF between the sends, the peer
    shutting its output side down / going away, the caller closing the object, sends that fail (payloads: small, larger than
    every buffer).  part 'await': awaited reads with cancellation / timeout, output arriving between two calls, mixed with
    blocking reads and small sends.  bytes and utf-8, all three logs."""
    life = part == 'life'
    return [('Payloads', '<- EnvPayloads' if life else '<- AwPayloads'), ('ReadPayloads', '<- EnvRead'), ('KeyPayloads', '<- EnvRead'),
            ('Lists', '<- EnvLists' if life else '<- AwLists'),
            ('Controls', '<- NoControls'), ('LogCfgs', '<- %s' % logcfgs), ('Modes', '<- ModesEnv'), ('Transport', '= "%s"' % transport),
            ('MaxOps', '= %d' % maxops), ('History', '= %s' % ('TRUE' if history else 'FALSE')), ('Bug', '= "%s"' % bug),
            ('Env', '= %s' % ('TRUE' if life else 'FALSE')), ('Aw', '= %s' % ('FALSE' if life else 'TRUE')), ('MaxCarry', '= %d' % carry)]


# ---------------------------------------------------------------- walks over the state graph
def plan_walks(g, length, rng):
    """paths from initial states that together take every transition of the graph; every
    transition out of an initial state starts a walk (it needs a fresh object).  A walk never
    ends inside interact()."""
    walks = []
    for i0 in g.init:
        # edges reachable from this initial state
        seen, order = {i0}, [i0]
        for n in order:
            for lab, d in g.edges[n]:
                if d not in seen:
                    seen.add(d)
                    order.append(d)
        uncovered = set((n, k) for n in order for k in range(len(g.edges[n])))
        total = len(uncovered)
        guard = 0
        while uncovered:
            guard += 1
            if guard > 10 * total:
                raise tlc.TLCError('walk planner does not terminate')
            cur, walk = i0, []
            while True:
                # nearest uncovered edge from cur (breadth first over the graph)
                path = _path_to_uncovered(g, cur, uncovered)
                if path is None:
                    break
                for n, k in path:
                    uncovered.discard((n, k))
                    lab, d = g.edges[n][k]
                    walk.append((lab, d))
                    cur = d
                if len(walk) >= length and g.nodes[cur]['phase'] == 'normal':
                    break
            if g.nodes[cur]['phase'] == 'interact':
                k = [j for j, (lab, d) in enumerate(g.edges[cur]) if lab.startswith('ExitInteract')][0]
                uncovered.discard((cur, k))
                walk.append(g.edges[cur][k])
            if not walk:
                break
            walks.append((i0, walk))
        if uncovered:
            raise tlc.TLCError('walk planner left %d transitions uncovered' % len(uncovered))
    return walks


def _path_to_uncovered(g, start, uncovered):
    prev = {start: None}
    queue = [start]
    for n in queue:
        ks = [k for k in range(len(g.edges[n])) if (n, k) in uncovered]
        if ks:
            path = [(n, ks[0])]
            while prev[n] is not None:
                n, k = prev[n]
                path.append((n, k))
            path.reverse()
            return path
        for k, (lab, d) in enumerate(g.edges[n]):
            if d not in prev:
                prev[d] = (n, k)
                queue.append(d)
    return None


def slim(st):
    """the part of a TLC state the replay compares with"""
    return {k: st[k] for k in ('mode', 'logcfg', 'phase', 'peerGot', 'userGot', 'logSend', 'logRead', 'logAll', 'writes',
                               'flushes', 'delivered', 'ret', 'encBom', 'peerOpen', 'link', 'outOpen', 'sockTmo', 'rd', 'kq', 'pend')}


# ---------------------------------------------------------------- instantiation of TLC states
DESCENDANT = r"""
import os, signal, sys, termios
signal.signal(signal.SIGHUP, signal.SIG_IGN)
a = termios.tcgetattr(0)
a[3] &= ~(termios.ECHO | termios.ICANON | termios.ISIG | termios.IEXTEN)
a[1] &= ~termios.OPOST
a[0] &= ~(termios.ICRNL | termios.IXON | termios.INLCR | termios.IGNCR | termios.ISTRIP)
a[6][termios.VMIN] = 1
a[6][termios.VTIME] = 0
termios.tcsetattr(0, termios.TCSANOW, a)
if os.fork():
    os._exit(0)                      # the process pexpect started is gone; its descendant keeps the terminal
out = os.open(sys.argv[1], os.O_WRONLY | os.O_APPEND)
os.write(out, b"READER %d\n" % os.getpid())
while True:
    d = os.read(0, 65536)
    if not d:
        break
    os.write(out, d.hex().encode() + b"\n")
"""


def probe_descendant_reader(mode):
    """PeerGotExactly when the process pexpect started has exited (and pexpect knows) but a descendant still holds the
    terminal and reads it - the shape of `ssh -f`, a daemonising launcher: what the send family is handed still reaches
    whoever reads the pty, and the return values say so.  Returns [(clause, detail)]."""
    import signal, tempfile, time
    from ..sendlog_world import ENCODING
    enc = ENCODING[mode]
    T = api_type(mode)
    conv = (lambda b: b.decode(enc)) if T is str else (lambda b: b)
    d = tempfile.mkdtemp(prefix='verif-desc-')
    script, report = os.path.join(d, 'child.py'), os.path.join(d, 'report')
    open(script, 'w').write(DESCENDANT)
    open(report, 'w').close()
    bad, reader, c = [], None, None

    def got(n_expected, timeout=5.0):
        end = time.time() + timeout
        while True:
            lines = open(report, 'rb').read().split(b'\n')[1:]
            data = b''.join(bytes.fromhex(l.decode()) for l in lines if l)
            if len(data) >= n_expected or time.time() > end:
                return data
            time.sleep(0.005)
    try:
        c = pexpect.spawn(sys.executable, [script, report], timeout=10, encoding=enc)
        c.delaybeforesend = None
        end = time.time() + 10
        while not open(report, 'rb').read().startswith(b'READER') and time.time() < end:
            time.sleep(0.005)
        head = open(report, 'rb').read().split(b'\n')[0].split()
        if len(head) < 2:
            raise tlc.TLCError('descendant reader did not start')
        reader = int(head[1])
        end = time.time() + 10
        while c.isalive() and time.time() < end:
            time.sleep(0.005)
        if c.isalive():
            raise tlc.TLCError('the started process did not exit')
        want = b''
        text = 'caf\u00e9 \u20ac' if T is str else b'caf\xe9 \xff\x00'
        enc_b = (lambda v: v.encode(enc)) if T is str else (lambda v: v)
        for op, arg in (('send', conv(b'alpha ') + text), ('sendline', conv(b'beta')), ('write', conv(b'gam')),
                        ('writelines', [conv(b'ma'), conv(b' '), text]), ('send', conv(b'x' * 3000))):
            try:
                ret = getattr(c, op)(arg)
            except Exception as e:
                bad.append(('C08:peer-bytes', {'op': op, 'raised': '%s: %s' % (type(e).__name__, e), 'note': 'the started process has exited, a descendant reads the pty'}))
                break
            piece = b''.join(enc_b(x) for x in arg) if op == 'writelines' else enc_b(arg)
            if op == 'sendline':
                piece += os.linesep.encode()
            want += piece
            have = got(len(want))
            if have != want:
                bad.append(('C08:peer-bytes', {'op': op, 'peer_got_bytes': len(have), 'handed_over_bytes': len(want),
                                               'note': 'the started process has exited (isalive() is False), a descendant still reads the pty'}))
                break
            if op in ('send', 'sendline') and ret != len(piece):
                bad.append(('C08:return-value', {'op': op, 'returned': ret, 'bytes_written': len(piece)}))
                break
    finally:
        if c is not None:
            try:
                c.close(force=True)
            except Exception:
                pass
        if reader:
            try:
                os.kill(reader, signal.SIGKILL)
            except OSError:
                pass
        import shutil
        shutil.rmtree(d, ignore_errors=True)
    return bad


def probe_popen_read_error(mode):
    """LogTypeIsApiType on an execution in which the pipe read of PopenSpawn's reader thread fails
    (fault injected at the os.read of pexpect.popen_spawn): whatever happens, only values of the
    API string type may be written to the log files.  Returns [(clause, detail)]."""
    import errno
    import pexpect.popen_spawn as pp
    from ..reclog import RecLog
    from ..sendlog_world import ENCODING

    class OsProxy(object):
        fired = False

        def read(self, fd, n):
            if not OsProxy.fired:
                OsProxy.fired = True
                raise OSError(errno.EIO, 'injected read failure')
            return os.read(fd, n)

        def __getattr__(self, name):
            return getattr(os, name)
    rec = RecLog('all')
    saved = pp.os
    pp.os = OsProxy()
    c = None
    try:
        c = pp.PopenSpawn(['/bin/cat'], timeout=10, logfile=rec, encoding=ENCODING[mode])
        try:
            c.expect(pexpect.EOF)
        except Exception:
            pass
    finally:
        pp.os = saved
        if c is not None:
            try:
                c.proc.stdin.close()
            except OSError:
                pass
            c.proc.wait()
            c._read_thread.join(2)
            c.proc.stdout.close()
    T = api_type(mode)
    bad = [w for w in rec.writes if type(w) is not T]
    if bad:
        return [('C11:type', {'log': 'all', 'got_types': sorted(set(type(w).__name__ for w in bad)), 'want_type': T.__name__,
                              'value': repr(bad[0])[:200], 'op': 'read-error', 'what': 'a failing pipe read wrote a non-string object to logfile'})]
    return []


class Inst(object):
    """turns the items of a TLC state into concrete bytes / API values for one step"""

    def __init__(self, mode, tagof, rig=None):
        self.mode = mode
        self.tagof = tagof
        self.rig = rig
        self.ctl = {}               # n -> concrete control name for the class used at op n
        self.T = api_type(mode)
        self.big_n = BIG_N
        self.o_seq = None           # child output in flight (oldest first) + this step's: the 'o' items of a state are its tail

    def arg(self, it):              # <<"t", n, j, p>>
        return payload(it[3], self.mode, self.tagof(it[1]) * 10 + it[2], self.big_n)

    def P(self, cls, j=1):          # the j-th argument (class cls) of this step's call
        return payload(cls, self.mode, self.tagof(1) * 10 + j, self.big_n)

    def ctl_byte(self, it):         # <<"c", n, name>>
        name = it[2]
        if name == 'eof':
            return self.rig.veof if isinstance(self.rig.veof, bytes) else bytes([self.rig.veof])
        if name == 'intr':
            return self.rig.vintr if isinstance(self.rig.vintr, bytes) else bytes([self.rig.vintr])
        return bytes([CONTROL_TABLE[self.ctl[it[1]].lower()]])

    def keys(self, it):             # <<"k", n, p>>: what the user types (bytes, in the instance encoding)
        return self.text(it).encode(WIRE[self.mode])

    def text(self, it):             # text of a keystroke / child-output item
        tag = self.tagof(it[1])
        p = it[2]
        if p == 'sep':
            return 'k%d\rb\n;' % tag if it[0] == 'k' else 'o1-%d\r\no2\n\r;' % tag
        v = payload(p, 'utf8', tag)
        return v

    def end(self, it):
        return '<<END%d>>' % self.tagof(it[1])

    def out_bytes(self, it, with_end=True):       # <<"o", n, p>>: what the child writes
        t = self.text(it) + (self.end(it) if with_end else '')
        if self.mode == 'bytes' and it[2] == 'allbytes':
            return bytes(range(256)) + (self.end(it).encode() if with_end else b'')
        return t.encode(WIRE[self.mode])

    def peer(self, items):
        out = []
        for it in items:
            k = it[0]
            if k == 't':
                out.append(wire(self.arg(it), self.mode))
            elif k == 'sep':
                out.append(wire(os.linesep, self.mode))
            elif k == 'bom':
                out.append(codecs.BOM_UTF16)
            elif k == 'c':
                out.append(self.ctl_byte(it))
            elif k == 'k':
                out.append(self.keys(it))
            else:
                raise ValueError(it)
        return b''.join(out)

    def logged(self, entries, with_end=True):
        """the concatenated value a log must have received for these entries (API string type)"""
        T = self.T
        out = []
        n_o = sum(1 for e in entries if e['it'][0] == 'o')
        o_texts = list(self.o_seq[len(self.o_seq) - n_o:]) if (self.o_seq is not None and n_o) else None
        if o_texts is not None and len(o_texts) != n_o:
            raise Machinery('the state holds %d pieces of child output, the harness knows of %d' % (n_o, len(o_texts)))
        for e in entries:
            it = e['it']
            k = it[0]
            if k == 'o' and o_texts is not None:
                out.append(o_texts.pop(0))
                continue
            if k == 't':
                v = api(self.arg(it), self.mode)
            elif k == 'sep':
                v = api(os.linesep, self.mode)
            elif k == 'c':
                b = self.ctl_byte(it)
                v = b if T is bytes else chr(b[0])
            elif k == 'k':
                v = self.keys(it) if T is bytes else self.text(it)
            elif k == 'o':
                b = self.out_bytes(it, with_end)
                v = b if T is bytes else b.decode(WIRE[self.mode])
            else:
                raise ValueError(it)
            out.append(v)
        return T().join(out)


# ---------------------------------------------------------------- one step on the real object
def _exc(e):
    return '%s: %s' % (type(e).__name__, str(e)[:200])


def short(v, n=120):
    r = repr(v)
    return r if len(r) <= n else '%s...(%d)...%s' % (r[:n // 2], len(v), r[-n // 2:])


def check_logs(rig, inst, succ, phase, add, with_end=True, snapshot=None, granularity=True):
    """the three logs against logAll / logRead / logSend of the TLC state"""
    T = inst.T
    for name, var, clause in (('send', 'logSend', 'C11:logfile_send'), ('read', 'logRead', 'C11:logfile_read'),
                              ('all', 'logAll', 'C11:logfile-order')):
        if name not in rig.logs:
            continue
        if snapshot is not None:
            writes, flushes, maxun = snapshot[name]
        else:
            log = rig.logs[name]
            writes, flushes, maxun = list(log.writes), log.flushes, log.max_unflushed
        want = inst.logged(succ[var], with_end)
        bad_types = sorted(set(type(w).__name__ for w in writes if type(w) is not T))
        if bad_types:
            add('C11:type', {'log': name, 'got_types': bad_types, 'want_type': T.__name__, 'value': short(writes[0])})
            continue
        got = T().join(writes)
        if got != want:
            add('C11:interact' if phase == 'interact' else clause, {'log': name, 'got': short(got), 'want': short(want)})
        if flushes != len(writes) or maxun > 1:
            add('C11:flush', {'log': name, 'writes': len(writes), 'flushes': flushes, 'max_unflushed_writes': maxun})
        if granularity and len(writes) != succ['writes'][name] and got == want and not succ['delivered'] and not succ['userGot']:
            add('drift:write-granularity', {'log': name, 'writes': len(writes), 'model': succ['writes'][name]})


def big_size(rig, tag):
    """the concrete size of the payload class 'big' in the environment walks: always larger than what the transport
    buffers (pty 4 KiB, pipe 64 KiB, socketpair ~210 KiB), up to several MB"""
    if rig.transport == 'pty':
        return (20000, 70000, 20000, 300000)[tag % 4]
    if rig.sock is None:
        return (100000, 300000, 100000, 100000, 1000000)[tag % 5]
    return (300000, 300000, 1000000, 300000, 300000, 300000, 4000000)[tag % 7]


def exec_step(rig, label, succ, tag, ctlname, tamper=None, env=None):
    """perform the operation of one transition and compare with the successor state"""
    name, args = stategraph.parse_action(label)
    mode = rig.mode
    inst = Inst(mode, lambda n: tag, rig)
    if env:
        inst.big_n = big_size(rig, tag)
    c = rig.child
    T = inst.T
    found = []

    def add(clause, detail):
        found.append((clause, dict(detail, op=label)))
    rig.reset_logs()
    ret, exc, feeder, before = None, None, None, None
    fifo = list(rig.fifo)                       # child output in flight before this step (API type, oldest first)
    new_text = None                             # child output written in this step (without the end marker)
    must_fail = succ['ret']['k'] == 'raised'    # the model says the call fails
    part = [it for it in succ['peerGot'] if it[0] == 'part']
    stalled = name == 'Stalled'
    sop = SEND_OPS.get(name) or (args[0] if stalled else None)
    is_big = False
    never = NEVER if T is str else NEVER.encode()
    sock_tmo = lambda: ('timeout', rig.sock.gettimeout()) if (rig.sock is not None and rig.link == 'up') else None
    tmo0 = sock_tmo()
    try:
        if sop is not None:
            if name == 'WriteLines':
                classes = list(args[0])
            elif stalled:
                classes = ['ascii', args[1]] if sop == 'writelines' else [args[1]]
            else:
                classes = [args[0]]
            vals = [inst.P(p, j + 1) for j, p in enumerate(classes)]
            is_big = 'big' in classes
            if sop == 'writelines':
                # "any iterable object producing strings": the same items as a list, a tuple, a generator, an iterator
                _WL[0] += 1
                shape = [list, tuple, (lambda v: (x for x in v)), iter][_WL[0] % 4]
                call = lambda: c.writelines(shape(vals))
            else:
                call = lambda: getattr(c, sop)(vals[0])
            if stalled:
                # the user's socket timeout is short and the peer does not read: sendall() gives up part-way
                rig.sock.settimeout(STALL_TIMEOUT)
                tmo0 = sock_tmo()
                ret = rig.gated(call, stalled=True)
            elif env and is_big and rig.sock is not None:
                ret = rig.gated(call)           # the peer reads once the sender's buffer is full
            else:
                ret = call()
        elif name == 'SendControl':
            inst.ctl[1] = ctlname
            ret = c.sendcontrol(ctlname)
        elif name == 'SendEof':
            if rig.transport == 'popen':
                rig.drop_raw()              # the harness' own handle on the child's stdin
            ret = c.sendeof()
        elif name == 'SendIntr':
            ret = c.sendintr()
        elif name == 'ReadDelivered':
            it = succ['delivered'][-1]
            new_text = inst.logged([{'it': it}], with_end=False)
            feeder = rig.child_output(rig.out_prefix() + inst.out_bytes(it))
            end = inst.end(it)
            # LogReadExact at an intermediate point: a read that asks for less than the transport already holds
            # delivers only that much - and only that much may be in the read log (logfile_read, logfile)
            partial = inst.T()
            if tag % 3 == 0 and feeder is None and not fifo:
                lg = rig.logs.get('read')
                joined = lambda: inst.T().join(w for w in lg.writes if isinstance(w, inst.T)) if lg is not None else None
                log0 = joined()
                t_end = time.time() + 10
                while len(partial) < 3 and time.time() < t_end:
                    try:
                        partial += c.read_nonblocking(3 - len(partial), 0.2)
                    except pexpect.TIMEOUT:
                        pass
                if lg is not None and joined()[len(log0):] != partial:
                    add('C11:logfile_read', {'what': 'after a read that asked for 3 characters the read log does not hold exactly what that read delivered',
                                             'delivered_by_this_read': short(partial), 'logged_since': short(joined()[len(log0):])})
            # (the environment walks vary the timeout: a number, None - the text is on its way -, the instance default)
            c.expect_exact(end if inst.T is str else end.encode(), timeout=(30, None, -1)[tag % 3] if env else 30)
            before = partial + c.before
        elif name == 'ReadTimeout':
            # a blocking read that finds nothing: the TIMEOUT pattern (no exception reaches the caller) / read_nonblocking
            t = 0 if args[0] == 'zero' else 0.05
            if rig.transport != 'popen' and tag % 2:
                try:
                    got = c.read_nonblocking(1, t)
                    add('other:read-timeout', {'what': 'read_nonblocking returned although nothing was written', 'got': short(got)})
                except pexpect.TIMEOUT:
                    pass
            else:
                idx = c.expect([pexpect.TIMEOUT, never], timeout=t)
                if idx != 0:
                    add('other:read-timeout', {'what': 'expect([TIMEOUT, ..]) returned %r although nothing was written' % (idx,)})
        elif name == 'HalfCloseEof':
            rig.half_close()
            c.expect(pexpect.EOF, timeout=30)
            before = c.before
            if rig.transport == 'popen':
                # the reader thread has delivered EOF; let it finish whatever it does after that
                c._read_thread.join(20)
                if c._read_thread.is_alive():
                    raise Machinery('PopenSpawn reader thread still running after EOF')
        elif name == 'PeerGone':
            rig.peer_gone()
        elif name == 'CloseSelf':
            rig.close_self()
        elif name == 'ARead':
            it = succ['delivered'][-1]
            new_text = inst.logged([{'it': it}], with_end=False)
            end = inst.end(it)
            rig.feed(rig.out_prefix() + inst.out_bytes(it))
            rig.arun(c.expect_exact(end if T is str else end.encode(), timeout=30, async_=True))
            before = c.before
        elif name == 'ACancel':
            async def cancelled():
                if args[0] == 'cancel':
                    task = asyncio.ensure_future(c.expect_exact(never, timeout=30, async_=True))
                    await rig.settle()          # the call is waiting, what was readable has been taken in
                    task.cancel()
                    try:
                        await task
                    except asyncio.CancelledError:
                        return
                    raise Machinery('the cancelled call returned')
                try:
                    await asyncio.wait_for(c.expect_exact(never, timeout=30, async_=True), 2.0)
                except asyncio.TimeoutError:
                    return
                raise Machinery('the call inside asyncio.wait_for returned')
            rig.arun(cancelled())
        elif name == 'ATimeout':
            try:
                rig.arun(c.expect_exact(never, timeout=1.5, async_=True))
                add('other:await-timeout', {'what': 'the awaited call returned although the text never came'})
            except pexpect.TIMEOUT:
                pass
        elif name == 'Arrive':
            it = ['o', 1, args[0]]
            new_text = inst.logged([{'it': it}], with_end=False)
            rig.feed(rig.out_prefix() + inst.out_bytes(it, with_end=False))
            rig.arun(rig.settle())
        else:
            raise ValueError(label)
    except (pexpect.TIMEOUT, pexpect.EOF) as e:
        exc = e
    except Machinery:
        raise
    except Exception as e:
        exc = e
    tmo1 = sock_tmo()
    if stalled:
        rig.sock.settimeout(rig.sock_timeout0)
        rig.release()
    if feeder is not None:
        if exc is not None:
            rig.discard_input(feeder)
        feeder.join(30)
        if feeder.is_alive():
            raise Machinery('the thread playing the child\'s output is stuck')
    if tmo0 is not None and tmo1 is not None and tmo1 != tmo0:
        # stated by C06 ("a socket's own timeout setting is left as it was found"); here it is the precondition of the next sends
        add('other:socket-timeout', {'what': 'the call changed the socket\'s own timeout', 'before': tmo0[1], 'after': tmo1[1], 'kind': rig.kind})
    # child output: what is in flight after this step
    has_new = new_text is not None
    flight = fifo + ([new_text] if has_new else [])
    n_left = len(succ['pend']) + len(succ['kq'])
    rig.fifo = flight[len(flight) - n_left:] if n_left else []
    if env or has_new:
        inst.o_seq = fifo + ([new_text + (api(inst.end(['o', 1, '']), mode) if name in ('ReadDelivered', 'ARead') else T())] if has_new else [])
    if tamper:
        tamper(succ)
    # what the peer received
    if name == 'SendEof' and rig.transport == 'popen':
        if exc is None:
            if not rig.drain.wait_eof(10):
                add('C08:peer-bytes', {'what': 'sendeof() did not close the child\'s stdin'})
            seg = rig.drain.rest()
            rig.stdin_open = False
        else:
            seg = b''
    elif rig.stdin_open:
        seg = rig.barrier()
    else:
        seg = b''
    is_ctl = name in ('SendControl', 'SendEof', 'SendIntr')
    if must_fail:
        # a send-family call that the environment makes fail: the exception goes to the caller; of the send() that failed
        # a proper prefix may have reached the peer; the send log holds every send() that was attempted, completely
        if exc is None:
            add('drift:expected-failure', {'what': 'the model says this call fails', 'returned': ret})
            return found
        full = inst.peer([it for it in succ['peerGot'] if it[0] != 'part'])
        if not seg.startswith(full):
            add('C08:peer-bytes', {'what': 'a call that failed part-way: the peer did not get the earlier pieces', 'got': short(seg), 'want_prefix': short(full)})
        elif part:
            piece = inst.peer(part[0][1])
            rest = seg[len(full):]
            if not piece.startswith(rest) or len(rest) == len(piece):
                add('C08:peer-bytes', {'what': 'a call that failed part-way: the peer got something else than a proper prefix of the piece',
                                       'got': short(rest), 'piece': short(piece), 'got_len': len(rest), 'piece_len': len(piece), 'exc': _exc(exc)})
            elif not rest:
                add('drift:nothing-sent', {'what': 'nothing of the piece reached the stalled peer', 'exc': _exc(exc)})
        elif seg != full:
            add('C08:peer-bytes', {'got': short(seg), 'want': short(full), 'what': 'a call that failed wrote to the peer', 'exc': _exc(exc)})
        check_logs(rig, inst, succ, 'normal', add, granularity=False)
        for f in found:
            f[1].setdefault('exc', _exc(exc))
            f[1].setdefault('peer_got_len', len(seg))
        return found
    want_peer = inst.peer(succ['peerGot'])
    if exc is not None:
        if name in ('ReadDelivered', 'ARead'):
            add('C11:logfile_read', {'what': 'the read that should have delivered the child\'s output raised', 'exc': _exc(exc)})
        elif sop is not None or is_ctl:
            add('C08:control-byte' if is_ctl else 'C08:peer-bytes', {
                'what': 'the call raised although the peer is there and reads', 'exc': _exc(exc), 'peer_got_len': len(seg), 'want_len': len(want_peer),
                'peer_got_a_proper_prefix': bool(len(seg) < len(want_peer) and want_peer.startswith(seg)), 'got': short(seg), 'kind': rig.kind})
        else:
            add('other:environment-step', {'what': 'the step raised', 'exc': _exc(exc)})
        return found
    if seg != want_peer:
        add('C08:control-byte' if is_ctl else 'C08:peer-bytes', {'got': short(seg), 'want': short(want_peer),
                                                                  'got_len': len(seg), 'want_len': len(want_peer)})
    if name in ('Send', 'SendLine'):
        want_ret = len(inst.peer(succ['ret']['items']))
        if ret != want_ret or ret != len(seg):
            add('C08:return-value', {'returned': ret, 'bytes_the_model_says': want_ret, 'bytes_the_peer_got': len(seg)})
    elif name == 'SendControl' and ret != 1:
        add('drift:sendcontrol-return', {'returned': ret})
    if before is not None:
        # what the call handed to the caller: the text that was pending, then this call's
        nd = len(succ['delivered'])
        texts = (fifo + ([new_text] if has_new else []))
        want_before = T().join(texts[len(texts) - nd:]) if nd else T()
        if before != want_before:
            add('other:delivered-text', {'got': short(before), 'want': short(want_before)})
    if env == 'await' and name in ('Arrive', 'ACancel', 'ATimeout', 'ARead', 'ReadTimeout', 'ReadDelivered'):
        # the text the object holds for the next call (what matching will be given first; spawn.buffer is only its tail)
        held = c._before.getvalue()
        want_held = T().join(rig.fifo[:len(succ['pend'])])
        if held != want_held:
            add('other:pending-text', {'got': short(held), 'want': short(want_held)})
    check_logs(rig, inst, succ, 'normal', add, granularity=name not in ENV_OPS and not env)
    return found


def exec_interact(rig, steps, tag0, tamper=None):
    """steps: the transitions after EnterInteract up to and including ExitInteract"""
    found = []
    mode = rig.mode
    obs = []
    pre = {}
    kpre = {}

    def mk(i, label, succ):
        name, args = stategraph.parse_action(label)
        tag = tag0 + i
        inst = Inst(mode, lambda n: tag, rig)

        def step(stage, arg):
            if stage == 'inject':
                if i not in cut:
                    rig.reset_logs()
                if name == 'InteractCopyIn':
                    if i in cut:
                        # the first part was typed one select() earlier (see `first_part`)
                        os.write(arg, cut[i][1])
                        return
                    # utf-16: the user's keystrokes are a UTF-16 stream of their own, which starts with a
                    # byte-order mark once per interact() session (copied to the child like any keystroke)
                    kpre[i] = codecs.BOM_UTF16 if (mode == 'utf16' and not kpre) else b''
                    os.write(arg, kpre[i] + inst.keys(succ['peerGot'][0]))
                elif name == 'InteractCopyOut':
                    pre[i] = rig.out_prefix()
                    os.write(rig.out_fd, pre[i] + inst.out_bytes(succ['userGot'][0], with_end=False))
                elif name == 'ExitInteract':
                    os.write(arg, ESCAPE)
            else:
                o = {'logs': {n: (list(l.writes), l.flushes, l.max_unflushed) for n, l in rig.logs.items()}}
                if name == 'InteractCopyOut':
                    o['user'] = arg.take_n(len(pre[i] + inst.out_bytes(succ['userGot'][0], with_end=False)), 10)
                    o['pre'] = pre[i]
                    o['seg'] = rig.barrier()
                else:
                    o['seg'] = rig.barrier()
                obs.append(o)
        return step, name, inst
    made = [mk(i, lab, succ) for i, (lab, succ) in enumerate(steps)]
    # Keystrokes that reach interact() in TWO reads of the terminal, the cut inside a character where the
    # encoding has one (a slow line, a paste cut by the 1000-byte read): the child must receive the same bytes and
    # the logs the same text as when they arrive at once.  Two steps of three are typed that way.
    cut = {}
    script = []
    for i, (step, name, inst) in enumerate(made):
        if name == 'InteractCopyIn' and (tag0 + i) % 3 != 0:
            kb = inst.keys(steps[i][1]['peerGot'][0])
            at = _cut_inside_character(kb, WIRE[mode]) if mode != 'bytes' else len(kb) // 2
            if at:
                def first_part(stage, arg, i=i, kb=kb, at=at):
                    if stage == 'inject':
                        rig.reset_logs()
                        kpre[i] = codecs.BOM_UTF16 if (mode == 'utf16' and not kpre) else b''
                        cut[i] = (kpre[i] + kb[:at], kb[at:])
                        os.write(arg, cut[i][0])
                script.append(first_part)
        script.append(step)
    rig.reset_logs()
    exc, restored, ran = rig.interact(script)
    ran -= sum(1 for i in cut)
    if tamper:
        tamper(steps)
    if exc is not None:
        found.append(('C11:interact', {'what': 'interact() raised', 'exc': _exc(exc), 'op': 'interact'}))
        return found
    for idx, ((lab, succ), (fn, name, inst), o) in enumerate(zip(steps, made, obs)):
        def add(clause, detail, lab=lab):
            found.append((clause, dict(detail, op=lab, phase='interact')))
        want_peer = kpre.get(idx, b'') + inst.peer(succ['peerGot'])
        if o['seg'] != want_peer:
            add('C08:peer-bytes', {'got': short(o['seg']), 'want': short(want_peer), 'what': 'bytes the child received during interact()'})
        if name == 'InteractCopyOut':
            want_user = o['pre'] + inst.out_bytes(succ['userGot'][0], with_end=False)
            if o['user'] != want_user:
                add('other:interact-output', {'got': short(o['user']), 'want': short(want_user)})
        check_logs(rig, inst, succ, 'interact', add, with_end=False, snapshot=o['logs'], granularity=idx not in cut)
    if len(obs) < len(steps):
        found.append(('C11:interact', {'what': 'interact() returned after %d of %d scripted steps' % (len(obs), len(steps)), 'op': 'interact'}))
    return found


def _cut_inside_character(kb, codec):
    """a position inside `kb` at which an incremental decoder is left holding part of a character (0: none)"""
    for at in range(1, len(kb)):
        d = codecs.getincrementaldecoder(codec)()
        d.decode(kb[:at])
        if d.getstate()[0]:
            return at
    return 0


def _known(job, clause, detail):
    """does this failing step match a recorded known finding?  (such steps do not count towards
    giving a walk / a transport up, so that recording a finding does not cost coverage)"""
    f = common.Failure(clause, None, detail, signature(dict(job, kind=job.get('kind')), {'detail': detail}))
    return any(common.matches(k, f) for k in job.get('known', ()))


def run_walk(job):
    """executed in a worker: one fresh real object, one walk"""
    transport, init, steps, widx, workdir = job['transport'], job['init'], job['steps'], job['widx'], job['work']
    out = {'fails': [], 'steps': 0, 'ctl': [], 'machinery': None, 'drift': 0, 'other': [], 'kind': None}
    rig = None
    try:
        env = job.get('env')
        rig = Rig(transport, init['mode'], init['logcfg'], workdir, variant=widx, **job.get('rig', {}))
        out['kind'] = job['kind'] = rig.kind
        i = 0
        nfail = 0
        while i < len(steps) and nfail < 6:
            # (a walk is given up after 6 failing steps of the property being checked)
            label, succ = steps[i]
            name = label.split('(')[0]
            if name == 'EnterInteract':
                j = i + 1
                while not steps[j][0].startswith('ExitInteract'):
                    j += 1
                found = exec_interact(rig, steps[i + 1:j + 1], i + 2)
                out['steps'] += j + 1 - i
                at = i
                i = j + 1
            else:
                ctl = None
                if name == 'SendControl':
                    pool = LETTERS if 'letter' in label else PUNCT
                    ctl = pool[(widx * 5 + i) % len(pool)]
                    out['ctl'].append(ctl)
                found = exec_step(rig, label, succ, i + 1, ctl, env=env)
                out['steps'] += 1
                at = i
                i += 1
            real = [f for f in found if f[0].startswith('C')]
            own = [f for f in real if f[0].startswith(job.get('pid', 'C')) and not _known(job, f[0], f[1])]
            if real:
                # a failing real-process step is confirmed on a fresh object: same prefix, twice more
                # (only for the property being checked; the other property's clauses are informational here)
                if job.get('confirm', True) and own:
                    ok_again = False
                    for _ in range(2):
                        again = run_walk(dict(job, steps=steps[:i], confirm=False))
                        if again['machinery'] or not any(f['at'] == at for f in again['fails']):
                            ok_again = True
                            break
                    if ok_again:
                        out['drift'] += 1
                        continue
                nfail += 1 if own else 0
                for clause, detail in real:
                    out['fails'].append({'clause': clause, 'detail': detail, 'at': at})
            out["drift"] += sum(1 for f in found if f[0].startswith("drift:")); out.setdefault("driftlist", []).extend([f for f in found if f[0].startswith("drift:")][:1])
            out['other'] += [f for f in found if f[0].startswith('other:')][:1]
    except Machinery as e:
        out['machinery'] = 'Machinery: %s' % e
    except Exception:
        out['machinery'] = traceback.format_exc()
    finally:
        if rig is not None:
            rig.close()
    return out


# ---------------------------------------------------------------- the check
def window_graph(ctx, transport):
    cfg = tlc.write_cfg(os.path.join(ctx.work, 'w_%s.cfg' % transport), invariants=INVS,
                        constants=consts(transport, False, 1, False, logcfgs='LogCfgsQuick' if getattr(ctx, 'tier', 'quick') == 'quick' else 'LogCfgsAll'))
    dot = os.path.join(ctx.work, 'w_%s.dot' % transport)
    res = tlc.run('MCSendLog', cfg, ctx.work, workers=1, timeout=900, heap='2g', extra=['-dump', 'dot,actionlabels', dot],
                  outname='w_%s.out' % transport)
    if not res['ok']:
        raise tlc.TLCError('SendLog (last-operation configuration, %s): %s (%s)' % (transport, res['violated'] or 'TLC failed', res['out']))
    g = stategraph.Graph(dot)
    os.unlink(dot)
    taken = set(l.split('(')[0] for es in g.edges.values() for l, d in es)
    if NEEDED[transport] - taken:
        raise tlc.TLCError('SendLog %s: actions never taken: %s' % (transport, sorted(NEEDED[transport] - taken)))
    for n, st in g.nodes.items():
        st['logcfg'] = sorted(st['logcfg'][1])
    return res, g


def history_check(ctx, transport, maxops, hlogcfgs='LogCfgsSmall'):
    tag = '%s_%d' % (transport, maxops)
    cfg = tlc.write_cfg(os.path.join(ctx.work, 'h_%s.cfg' % tag), constants=consts(transport, True, maxops, True, hlogcfgs=hlogcfgs), invariants=INVS)
    res = tlc.run('MCSendLog', cfg, ctx.work, workers=4, timeout=2400, heap='4g', outname='h_%s.out' % tag, coverage=False)
    if not res['ok']:
        raise tlc.TLCError('SendLog (whole-history configuration, %s): %s (%s)' % (transport, res['violated'] or 'TLC failed', res['out']))
    return res


def env_graph(ctx, transport, part, carry):
    """the state graph of an environment configuration (last-operation form), every action it needs taken"""
    tag = '%s_%s' % (part, transport)
    cfg = tlc.write_cfg(os.path.join(ctx.work, 'e_%s.cfg' % tag), invariants=INVS, constants=env_consts(transport, part, False, 1, carry=carry))
    dot = os.path.join(ctx.work, 'e_%s.dot' % tag)
    res = tlc.run('MCSendLog', cfg, ctx.work, workers=1, timeout=900, heap='2g', extra=['-dump', 'dot,actionlabels', dot], outname='e_%s.out' % tag)
    if not res['ok']:
        raise tlc.TLCError('SendLog (%s configuration, %s): %s (%s)' % (part, transport, res['violated'] or 'TLC failed', res['out']))
    g = stategraph.Graph(dot)
    os.unlink(dot)
    taken = set(l.split('(')[0] for es in g.edges.values() for l, d in es)
    need = NEEDED_LIFE[transport] if part == 'life' else NEEDED_AWAIT
    if need - taken:
        raise tlc.TLCError('SendLog %s/%s: actions never taken: %s' % (part, transport, sorted(need - taken)))
    for n, st in g.nodes.items():
        st['logcfg'] = sorted(st['logcfg'][1])
    return res, g


def env_history(ctx, transport, part, maxops, carry):
    tag = '%s_%s' % (part, transport)
    cfg = tlc.write_cfg(os.path.join(ctx.work, 'eh_%s.cfg' % tag), invariants=INVS, constants=env_consts(transport, part, True, maxops, carry=carry))
    res = tlc.run('MCSendLog', cfg, ctx.work, workers=2, timeout=2400, heap='4g', outname='eh_%s.out' % tag)
    if not res['ok']:
        raise tlc.TLCError('SendLog (%s configuration, whole histories, %s): %s (%s)' % (part, transport, res['violated'] or 'TLC failed', res['out']))
    return res


def env_mutant_check(ctx, bug):
    transport, part, expect = ENV_BUGS[bug]
    cfg = tlc.write_cfg(os.path.join(ctx.work, 'm_%s.cfg' % bug), constants=env_consts(transport, part, True, 3, bug=bug), invariants=INVS)
    res = tlc.run('MCSendLog', cfg, ctx.work, workers=2, timeout=600, heap='2g', outname='m_%s.out' % bug)
    if res['violated'] not in expect and (res['machinery_error'] or res['timed_out']):
        res = tlc.run('MCSendLog', cfg, ctx.work, workers=2, timeout=600, heap='2g', outname='m_%s.out' % bug)
    if res['violated'] not in expect:
        raise tlc.TLCError('SendLog (%s, %s) with Bug=%s should violate one of %s, got %s' % (part, transport, bug, sorted(expect), res['violated']))
    return res['violated']


def mutant_check(ctx, bug):
    cfg = tlc.write_cfg(os.path.join(ctx.work, 'm_%s.cfg' % bug), constants=consts('pty', True, 2, True, bug), invariants=INVS)
    res = tlc.run('MCSendLog', cfg, ctx.work, workers=2, timeout=600, heap='2g', outname='m_%s.out' % bug)
    if res['violated'] not in BUGS[bug] and (res['machinery_error'] or res['timed_out']):
        res = tlc.run('MCSendLog', cfg, ctx.work, workers=2, timeout=600, heap='2g', outname='m_%s.out' % bug)
    if res['violated'] not in BUGS[bug]:
        raise tlc.TLCError('SendLog with Bug=%s should violate one of %s, got %s' % (bug, sorted(BUGS[bug]), res['violated']))
    return res['violated']


def signature(job, f):
    op = f['detail'].get('op', '')
    return {'transport': job['transport'], 'kind': job.get('kind'), 'mode': job['init']['mode'], 'op': op.split('(')[0],
            'phase': f['detail'].get('phase', 'normal'), 'log': f['detail'].get('log')}


def run(ctx):
    if ctx.replay:
        return replay(ctx)
    quick = ctx.quick()
    pid = ctx.pid
    print('[%s] send / logging fidelity - tier %s seed %d' % (pid, ctx.tier, ctx.seed), flush=True)
    os.chdir(ctx.work)
    rng = random.Random(ctx.seed * 977 + 11)
    t0 = time.time()
    # (1) TLC: whole-history configuration per transport, mutants, last-operation graphs
    maxops = 3 if quick else 4
    envs = [(tr, 'life') for tr in TRANSPORTS] + [(tr, 'await') for tr in AWAIT_TRANSPORTS]
    carry = 2 if quick else 3
    with ThreadPool(3) as tp:
        # the environment configurations: graphs to walk, whole histories, the model's own mutants
        egraphs_a = tp.map_async(lambda e: env_graph(ctx, e[0], e[1], carry), envs)
        ehist_a = tp.map_async(lambda e: env_history(ctx, e[0], e[1], (3 if quick else 4) if e[1] == 'life' else (4 if quick else 5), carry), envs)
        ecaught_a = tp.map_async(lambda b: env_mutant_check(ctx, b), sorted(ENV_BUGS))
        hist = tp.map(lambda tr: history_check(ctx, tr, maxops), TRANSPORTS)
        # one operation more on the transport with the most operations, fewer log configurations
        deep = history_check(ctx, 'pty', maxops + 1, 'LogCfgsTwo' if quick else 'LogCfgsOne')
        caught = tp.map(lambda b: mutant_check(ctx, b), sorted(BUGS))
        graphs = tp.map(lambda tr: window_graph(ctx, tr), TRANSPORTS)
        egraphs, ehist, ecaught = egraphs_a.get(), ehist_a.get(), ecaught_a.get()
    hstates = sum(r['distinct'] for r in hist) + deep['distinct']
    ctx.note('TLC SendLog, whole histories on pty with <= %d operations (%d log configuration(s)): %d distinct states' % (
        maxops + 1, 2 if quick else 1, deep['distinct']))
    ctx.note('TLC SendLog, whole histories (<= %d operations, 3 payload classes, 4 log configurations, bytes/utf-8/utf-16): %s '
             'distinct states; %d invariants hold' % (maxops, ' + '.join('%s %d' % (tr, r['distinct']) for tr, r in zip(TRANSPORTS, hist)), len(INVS)))
    ctx.note('model sensitivity: ' + ', '.join('%s -> %s' % (b, v) for b, v in list(zip(sorted(BUGS), caught)) + list(zip(sorted(ENV_BUGS), ecaught))))
    ctx.note('TLC SendLog, environment configurations (life: reads ending in TIMEOUT (0 / small) or EOF between sends of small and '
             'larger-than-buffer payloads, peer shuts its output side down and keeps reading, peer gone, object closed, stalled peer on a '
             'socket with a user timeout -> failing sends; await: awaited reads, cancelled by task.cancel() / asyncio.wait_for, timed out, '
             'output arriving between two calls (<= %d piece(s) in flight), mixed with blocking reads and sends; bytes / utf-8, socket handed '
             'over blocking / with a user timeout): whole histories %s distinct states; last-operation graphs %s' % (
                 carry, ' + '.join('%s/%s %d' % (p, tr, r['distinct']) for (tr, p), r in zip(envs, ehist)),
                 ', '.join('%s/%s %d/%d' % (p, tr, len(g.nodes), g.n_edges()) for (tr, p), (r, g) in zip(envs, egraphs))))
    ctx.note('TLC SendLog, last-operation configuration (6 payload classes, %d log configurations, 3 modes)' % (5 if quick else 8) + ': ' + ', '.join(
        '%s %d states / %d transitions' % (tr, len(g.nodes), g.n_edges()) for tr, (r, g) in zip(TRANSPORTS, graphs)) +
        ' (%.0fs of TLC so far)' % (time.time() - t0))
    # (2) walks covering every transition
    jobs = []
    for tr, (res, g) in zip(TRANSPORTS, graphs):
        walks = plan_walks(g, 30 if quick else 60, rng)
        for widx, (i0, walk) in enumerate(walks):
            jobs.append({'transport': tr, 'init': slim(g.nodes[i0]), 'widx': widx, 'work': ctx.work, 'pid': pid, 'known': ctx.findings,
                         'steps': [(lab, slim(g.nodes[d])) for lab, d in walk]})
    n_main = len(jobs)
    for (tr, part), (res, g) in zip(envs, egraphs):
        walks = plan_walks(g, 20 if quick else 40, rng)
        for widx, (i0, walk) in enumerate(walks):
            names = set(l.split('(')[0] for l, d in walk)
            init = slim(g.nodes[i0])
            jobs.append({'transport': tr, 'init': init, 'widx': widx, 'work': ctx.work, 'pid': pid, 'known': ctx.findings, 'env': part,
                         'rig': {'sock_tmo': init['sockTmo'] if part == 'life' else None,
                                 'fd_kind': 'socketpair' if (names & {'HalfCloseEof', 'PeerGone'}) else None},
                         'steps': [(lab, slim(g.nodes[d])) for lab, d in walk]})
    order = list(range(len(jobs)))
    rng.shuffle(order)
    t1 = time.time()
    # two rounds: a transport that already fails on many steps of the first tenth of its walks is not
    # replayed further (every failing step is confirmed twice on fresh objects, which is slow)
    cut = max(1, len(order) // 10)
    outs = [None] * len(jobs)
    with Pool(12) as pool:
        for i, o in zip(order[:cut], pool.map(run_walk, [jobs[i] for i in order[:cut]], chunksize=2)):
            outs[i] = o
        nf = {}
        for i in order[:cut]:
            nf[jobs[i]['transport']] = nf.get(jobs[i]['transport'], 0) + sum(
                1 for f in outs[i]['fails'] if f['clause'].startswith(pid) and not _known(dict(jobs[i], kind=outs[i]['kind']), f['clause'], f['detail']))
        broken = set(tr for tr, n in nf.items() if n >= 100)
        later = [i for i in order[cut:] if jobs[i]['transport'] not in broken]
        for i, o in zip(later, pool.map(run_walk, [jobs[i] for i in later], chunksize=4)):
            outs[i] = o
    if broken:
        ctx.note('not replayed further after >= 100 failing steps in the first tenth of the walks: %s' % ', '.join(sorted(broken)))
    jobs = [j for j, o in zip(jobs, outs) if o is not None]
    outs = [o for o in outs if o is not None]
    stats = {'walks': len(jobs), 'steps': 0, 'planned': sum(len(j['steps']) for j in jobs), 'drift': 0, 'per': {}, 'nontrivial': 0}
    mach = [(j, o) for j, o in zip(jobs, outs) if o['machinery']]
    if len(mach) > max(2, len(jobs) // 100):
        raise tlc.TLCError('%d walks could not be carried out, e.g. %s on %s' % (len(mach), mach[0][1]['machinery'], mach[0][0]['transport']))
    ctl_used = set()
    others = []
    drifts = []
    for j, o in zip(jobs, outs):
        j['kind'] = o['kind']
        stats['steps'] += o['steps']
        stats['drift'] += o['drift']
        stats['per'][j['transport']] = stats['per'].get(j['transport'], 0) + o['steps']
        ctl_used |= set(x.lower() for x in o['ctl'])
        others += o['other']
        drifts += o.get('driftlist', [])[:1]
        for f in o['fails']:
            ctx.fail(f['clause'], {'transport': j['transport'], 'init': j['init'], 'widx': j['widx'], 'env': j.get('env'), 'rig': j.get('rig', {}),
                                   'steps': j['steps'][:f['at'] + 1] if not
                                   j['steps'][f['at']][0].startswith('EnterInteract') else j['steps'][:_interact_end(j['steps'], f['at']) + 1]},
                     detail=f['detail'], signature=signature(j, f))
    for m in ('bytes', 'utf8'):
        for clause, detail in probe_popen_read_error(m):
            ctx.fail(clause, {'probe': 'popen-read-error', 'mode': m}, detail=detail,
                     signature={'transport': 'popen', 'kind': 'popen', 'mode': m, 'op': 'read-error', 'phase': 'normal', 'log': 'all'})
    ndesc = 0
    for m in ('bytes', 'utf8'):
        for attempt in (1, 2, 3):
            res_ = probe_descendant_reader(m)
            if not res_:
                break
        ndesc += 1
        for clause, detail in res_:
            ctx.fail(clause, {'probe': 'descendant-reader', 'mode': m}, detail=detail,
                     signature={'transport': 'pty', 'kind': 'pty', 'mode': m, 'op': detail.get('op', '?'), 'phase': 'started-process-gone', 'log': 'none'})
    ctx.note('%d sessions in which the started process has exited and a descendant still reads the pty: send / sendline / write / writelines '
             'still deliver everything (bytes and unicode)' % ndesc)
    any_fail = bool(broken) or any(f.clause.startswith(pid) for f in ctx.failures)
    if not any_fail and stats['steps'] < stats['planned']:
        raise tlc.TLCError('only %d of %d planned steps were replayed' % (stats['steps'], stats['planned']))
    missing = set(CONTROL_TABLE) - ctl_used
    if missing and not any_fail:
        raise tlc.TLCError('control character names never sent: %s' % sorted(missing))
    stats['nontrivial'] = sum(1 for j in jobs for lab, s in j['steps'] if s['peerGot'] or s['logAll'] or s['logSend'] or s['logRead'])
    ctx.note('%d walks on fresh real objects, %d steps (planned %d: every transition of the four graphs and of the seven environment '
             'graphs at least once) in %.0fs: %s; %d control names sent (%s); %d walks not carried out; SPEC-DRIFT/flaky %d' % (
                 len(jobs), stats['steps'], stats['planned'], time.time() - t1, ', '.join('%s %d' % kv for kv in sorted(stats['per'].items())),
                 len(ctl_used), 'all of the table' if not missing else 'missing %s' % sorted(missing), len(mach), stats['drift']))
    env_jobs = [(j, o) for j, o in zip(jobs, outs) if j.get('env')]
    count = lambda pred: sum(1 for j, o in env_jobs for lab, st in j['steps'][:o['steps']] if pred(j, lab, st))
    after_read = lambda big: sum(1 for j, o in env_jobs if j['env'] == 'life' for k in range(1, o['steps'])
                                 if j['steps'][k][0].split('(')[0] in SEND_OPS and j['steps'][k][1]['link'] == 'up' and j['steps'][k][1]['peerOpen']
                                 and j['steps'][k - 1][0].split('(')[0] in ('ReadTimeout', 'HalfCloseEof', 'ReadDelivered') and (not big or 'big' in j['steps'][k][0]))
    ctx.note('environment walks: %d walks / %d steps on %s; sends to a reading peer %d (larger than the transport buffers, 20 kB - 4 MB, the '
             'peer of a socket reading only once the sender\'s buffer is full: %d), of them directly after a read that ended in TIMEOUT (timeout '
             '0 / 0.05 s; expect([TIMEOUT, ..]) and read_nonblocking) or EOF or a match (timeout 30 / None / default): %d (large: %d); sends to a peer that shut its output side down and keeps reading '
             '(socket shutdown(SHUT_WR); Popen child pointing fd 1+2 at /dev/null, reader thread joined): %d; sends that the environment '
             'makes fail: peer gone %d, object closed / sendeof() %d, peer not reading + user timeout on a socket (part of the payload '
             'delivered) %d; awaited reads %d, awaited calls cancelled by task.cancel() / asyncio.wait_for %d, timed out %d, output arriving '
             'between two calls %d (taken in at once by a transport that nobody paused: %d)' % (
                 len(env_jobs), sum(o['steps'] for j, o in env_jobs), ', '.join(sorted(set(o['kind'] for j, o in env_jobs if o['kind']))),
                 count(lambda j, l, st: j['env'] == 'life' and l.split('(')[0] in SEND_OPS and st['link'] == 'up' and st['peerOpen']),
                 count(lambda j, l, st: j['env'] == 'life' and l.split('(')[0] in SEND_OPS and st['link'] == 'up' and st['peerOpen'] and 'big' in l),
                 after_read(False), after_read(True),
                 count(lambda j, l, st: l.split('(')[0] in SEND_OPS and st['link'] == 'up' and not st['outOpen']),
                 count(lambda j, l, st: l.split('(')[0] in SEND_OPS and st['link'] == 'gone'),
                 count(lambda j, l, st: l.split('(')[0] in SEND_OPS and (st['link'] == 'closed' or not st['peerOpen'])),
                 count(lambda j, l, st: l.startswith('Stalled')),
                 count(lambda j, l, st: l.startswith('ARead')), count(lambda j, l, st: l.startswith('ACancel')),
                 count(lambda j, l, st: l.startswith('ATimeout')), count(lambda j, l, st: l.startswith('Arrive')),
                 count(lambda j, l, st: l.startswith('Arrive') and st['rd'] == 'reading')))
    if drifts:
        ctx.note('SPEC-DRIFT (not a verdict), e.g. %s' % json.dumps(drifts[0])[:300])
    if others:
        ctx.note('not judged here (other properties): %d step(s), e.g. %s' % (len(others), json.dumps(others[0][1])[:300]))
    by = {}
    for f in ctx.failures:
        k = (f.clause, f.signature['transport'], f.signature['mode'], f.signature['op'], f.signature['phase'])
        by[k] = by.get(k, 0) + 1
    for k, n in sorted(by.items()):
        ctx.note('failing: %s on %s, %s mode, %s (%s): %d step(s)' % (k + (n,)))
    ctx.note('binding self-test: ' + self_test(ctx, graphs))
    try:
        ctx.note('binding self-test (environment walks): ' + env_self_test(ctx, dict(zip(envs, egraphs))))
    except tlc.TLCError as e:
        if not any_fail:
            raise
        # (the probes run on this tree's objects: on a tree that already breaks the property they may behave differently)
        ctx.note('binding self-test (environment walks) not conclusive on this tree, which breaks the property (see the violations): %s' % e)
    ctx.failures = [f for f in ctx.failures if f.clause.startswith(OWNER[pid])]
    status, nviol, nknown = common.conclude(ctx)
    sample_job = jobs[len(jobs) // 2]
    evidence.write(pid, ctx.tier, ctx.seed, 'model_checking', {
        'states': hstates + sum(len(g.nodes) for r, g in graphs) + sum(r['distinct'] for r in ehist) + sum(len(g.nodes) for r, g in egraphs),
        'transitions': sum(r['generated'] for r in hist) + deep['generated'] + sum(g.n_edges() for r, g in graphs) +
                       sum(r['generated'] for r in ehist) + sum(g.n_edges() for r, g in egraphs),
        'traces_validated_against_impl': len(jobs),
        'samples': [{'transport': sample_job['transport'], 'mode': sample_job['init']['mode'], 'logcfg': sample_job['init']['logcfg'],
                     'walk': [lab for lab, s in sample_job['steps']][:40]}] + [
            {'transport': j['transport'], 'kind': o['kind'], 'configuration': j['env'], 'mode': j['init']['mode'], 'walk': [lab for lab, s in j['steps']][:25]}
            for j, o in (env_jobs[:1] + env_jobs[-1:])],
        'evaluations': stats['steps'], 'distinct_nontrivial': stats['nontrivial'],
        'rule': 'every transition of the TLC state graph of the last-operation configuration (per transport: mode x log configuration x '
                'encoder state x previous operation x operation with payload class) is taken at least once by a walk on a fresh real '
                'object; after each step peer bytes, three logs (value, type), flush counts and return value are compared with the '
                'successor state; non-trivial = the step puts bytes on the wire or text into a log.  The same for the seven graphs of the '
                'environment configurations (life: pty / fd / popen / socket; await: pty / fd / socket), whose transitions also are reads '
                'ending in TIMEOUT / EOF, the peer shutting its output side down / going away, close(), sends that fail (the exception, '
                'what reached the peer - a proper prefix of the failing piece -, the send log) and awaited calls on a virtual-time asyncio '
                'loop (matched / cancelled from outside / timed out) with output arriving between them (read log, pending text)',
        'exhaustive': True, 'graph_transitions': sum(g.n_edges() for r, g in graphs) + sum(g.n_edges() for r, g in egraphs),
        'environment_graphs': {'%s/%s' % (p, tr): {'states': len(g.nodes), 'transitions': g.n_edges()} for (tr, p), (r, g) in zip(envs, egraphs)},
        'environment_history_states': {'%s/%s' % (p, tr): r['distinct'] for (tr, p), r in zip(envs, ehist)},
        'environment_steps': sum(o['steps'] for j, o in env_jobs),
        'per_transport_steps': stats['per'],
        'history_states': {tr: r['distinct'] for tr, r in zip(TRANSPORTS, hist)}, 'history_max_ops': maxops, 'history_deep': {'transport': 'pty', 'max_ops': maxops + 1, 'states': deep['distinct']},
        'model_mutants_rejected': dict(list(zip(sorted(BUGS), caught)) + list(zip(sorted(ENV_BUGS), ecaught))), 'control_names_sent': sorted(ctl_used),
        'checker_cmd': hist[0]['cmd'], 'known_findings_hit': nknown, 'spec_drift': stats['drift'], 'walks_not_carried_out': len(mach),
    }, assumptions=[
        'the peer is in raw mode (pty) or a plain pipe / socket: what it reports is byte for byte what was written; barrier markers written '
        'by the harness below pexpect delimit the bytes of each operation',
        'control operations exist on the pty transport only (sendcontrol / sendintr / sendeof); PopenSpawn.sendeof closes stdin; fdspawn and '
        'SocketSpawn have none',
        'write granularity of the logs (one or two write() calls per operation) is not part of the property; contents, order, type and one '
        'flush per write are',
        'blocking descriptors: one os.write / sendall delivers the whole payload while the peer reads concurrently; in the environment '
        'walks the peer of a socket reads a payload larger than the buffers only once the sender\'s buffer is full (or the call is over), so '
        'that a socket left non-blocking shows on every run',
        'a send-family call may fail only when the environment makes it fail (peer gone, object closed by the caller, peer not reading on a '
        'socket with a user timeout).  For such a call the send log must hold every send() that was attempted, completely - a prefix of what '
        'the call was asked to send, not empty, covering every piece of which a part reached the peer (PopenSpawn.sendline is two send()s: '
        'when the first fails the separator is not attempted and not logged; on the other transports text and separator are one piece)',
        'a pty master accepts writes after the child has gone, so "peer gone" makes sends fail on pipes and sockets only; awaited EOF is not '
        'in the histories (asyncio closes the object then); awaited calls need a descriptor, which PopenSpawn does not have',
        'the read log must hold what the object has taken into its buffer (what matching is given), when it takes it in: output arriving '
        'while no awaited call is waiting is logged at once if the transport is reading (nobody paused it after a cancellation from '
        'outside), with the next read otherwise',
        'a socket\'s own timeout being left as it was found is stated by C06; here a change is noted (not judged) as the precondition of '
        'the truncated delivery that C08 forbids',
    ], wall_s=ctx.wall(), violations=nviol)
    return status


def _interact_end(steps, at):
    j = at
    while not steps[j][0].startswith('ExitInteract'):
        j += 1
    return j


def self_test(ctx, graphs):
    """(a) a corrupted expected state must be reported by the step judge; (b) harness-side mutant
    objects (separator twice; log written after encoding) must be reported"""
    res, g = graphs[TRANSPORTS.index('fd')]
    i0 = [n for n in g.init if g.nodes[n]['mode'] == 'utf8' and g.nodes[n]['logcfg'] == ['all', 'read', 'send']][0]
    lab, d = [(l, d) for l, d in g.edges[i0] if l == 'SendLine("nonascii")'][0]
    succ = slim(g.nodes[d])
    rig = Rig('fd', 'utf8', succ['logcfg'], ctx.work)
    try:
        ok = exec_step(rig, lab, copy.deepcopy(succ), 1, None)
        if [f for f in ok if f[0].startswith('C')]:
            return 'skipped: the probe step itself fails on this tree (reported above)'

        def drop_sep(s):
            s['peerGot'] = [it for it in s['peerGot'] if it[0] != 'sep']
            s['logSend'] = s['logSend'][:-1]
        bad = exec_step(rig, lab, copy.deepcopy(succ), 2, None, tamper=drop_sep)
        cl = set(f[0] for f in bad)
        if not {'C08:peer-bytes', 'C11:logfile_send'} <= cl:
            raise tlc.TLCError('self-test: an expected state without the separator was not noticed (%s)' % sorted(cl))
        # mutant object 1: sendline adds the separator twice
        c = rig.child
        orig = c.sendline
        c.sendline = lambda s: c.send(s + c.linesep + c.linesep)
        m1 = set(f[0] for f in exec_step(rig, lab, copy.deepcopy(succ), 3, None))
        c.sendline = orig
        if 'C08:peer-bytes' not in m1:
            raise tlc.TLCError('self-test: a sendline that adds two separators was not noticed')
        # mutant object 2: the log is written after encoding (bytes in a text log)
        origlog = c._log
        c._log = lambda s, direction: origlog(s.encode('utf-8') if isinstance(s, str) else s, direction)
        m2 = set(f[0] for f in exec_step(rig, lab, copy.deepcopy(succ), 4, None))
        c._log = origlog
        if 'C11:type' not in m2:
            raise tlc.TLCError('self-test: bytes in a text log were not noticed')
    finally:
        rig.close()
    return ('an expected state with the separator removed is rejected (%s); an object whose sendline adds two separators and an '
            'object that logs after encoding are rejected' % ', '.join(sorted(cl)))


def _follow(g, mode, labels, sock_tmo='none'):
    """the steps (label, successor state) of the path with these labels from the initial state of `mode`"""
    cur = [n for n in g.init if g.nodes[n]['mode'] == mode and g.nodes[n]['sockTmo'] == sock_tmo][0]
    init = slim(g.nodes[cur])
    steps = []
    for lab in labels:
        nxt = [d for l, d in g.edges[cur] if l == lab]
        if not nxt:
            raise tlc.TLCError('self-test: no transition %s' % lab)
        cur = nxt[0]
        steps.append((lab, slim(g.nodes[cur])))
    return init, steps


def env_self_test(ctx, egraphs):
    """the environment walks reject (a) an expected state in which output that arrived between two awaited calls is not
    in the read log, (b) an object that does not log such output, (c) an object whose socket is left non-blocking by a
    read that timed out (the large send after it is cut short although the peer reads), (d) an object that writes its
    send log after the write (a send that fails part-way leaves no trace)"""
    said = []
    # (a), (b): await walk on fdspawn
    res, g = egraphs[('fd', 'await')]
    init, steps = _follow(g, 'utf8', ['ACancel("cancel")', 'Arrive("nonascii")'])
    rig = Rig('fd', 'utf8', init['logcfg'], ctx.work)
    try:
        c = rig.child
        for k, (lab, succ) in enumerate(steps):
            if [f for f in exec_step(rig, lab, copy.deepcopy(succ), k + 1, None, env='await') if f[0].startswith('C')]:
                return 'skipped: the probe steps themselves fail on this tree (reported above)'
        lab, succ = steps[1]

        def drop(st):
            st['logRead'], st['logAll'] = [], []
        rig.fifo = []
        c._buffer = type(c._buffer)()
        c._before = type(c._before)()
        cl = set(f[0] for f in exec_step(rig, lab, dict(copy.deepcopy(succ)), 3, None, tamper=drop, env='await'))
        if 'C11:logfile_read' not in cl:
            raise tlc.TLCError('self-test: an expected state without the late output in the read log was not noticed (%s)' % sorted(cl))
        said.append('an expected state without the output that arrived after a cancelled awaited call is rejected (%s)' % ', '.join(sorted(x for x in cl if x.startswith('C'))))
        orig = c._log

        def lazy_log(s_, direction):
            pw = c.async_pw_transport[0] if c.async_pw_transport else None
            if direction == 'read' and pw is not None and pw.fut.done():
                return
            return orig(s_, direction)
        c._log = lazy_log
        rig.fifo = []
        c._buffer = type(c._buffer)()
        c._before = type(c._before)()
        cl = set(f[0] for f in exec_step(rig, lab, copy.deepcopy(succ), 4, None, env='await'))
        c._log = orig
        if 'C11:logfile_read' not in cl:
            raise tlc.TLCError('self-test: an object that does not log output arriving between two awaited calls was not noticed (%s)' % sorted(cl))
        said.append('an object that does not log it is rejected')
    finally:
        rig.close()
    # (c), (d): life walk on SocketSpawn
    res, g = egraphs[('socket', 'life')]
    init, steps = _follow(g, 'bytes', ['ReadTimeout("zero")', 'Send("big")'])
    rig = Rig('socket', 'bytes', init['logcfg'], ctx.work, sock_tmo='none')
    try:
        c = rig.child
        if [f for f in exec_step(rig, steps[0][0], copy.deepcopy(steps[0][1]), 1, None, env='life') if f[0].startswith('C')]:
            return 'skipped: the probe steps themselves fail on this tree (reported above)'
        rig.sock.settimeout(0)
        cl = [f for f in exec_step(rig, steps[1][0], copy.deepcopy(steps[1][1]), 2, None, env='life') if f[0] == 'C08:peer-bytes']
        rig.sock.settimeout(None)
        if not cl:
            raise tlc.TLCError('self-test: a large send on a socket that was left non-blocking was not cut short / not noticed')
        said.append('a socket left non-blocking after a read that timed out: the next large send reaches the reading peer cut short '
                    '(%s of %s bytes) and is rejected' % (cl[0][1].get('peer_got_len', cl[0][1].get('got_len')), cl[0][1].get('want_len')))
    finally:
        rig.close()
    init, steps = _follow(g, 'bytes', ['Stalled("send","big")'], sock_tmo='user')
    rig = Rig('socket', 'bytes', init['logcfg'], ctx.work, sock_tmo='user')
    try:
        c = rig.child
        orig_send = c.send

        def late_log_send(s_):
            saved, c._log = c._log, (lambda *a: None)
            try:
                n = orig_send(s_)
            finally:
                c._log = saved
            c._log(c._coerce_send_string(s_), 'send')
            return n
        c.send = late_log_send
        cl = set(f[0] for f in exec_step(rig, steps[0][0], copy.deepcopy(steps[0][1]), 1, None, env='life'))
        if 'C11:logfile_send' not in cl:
            raise tlc.TLCError('self-test: an object that logs after the write was not noticed on a send that fails part-way (%s)' % sorted(cl))
        said.append('an object that writes the send log after the write is rejected on a send that fails part-way')
    finally:
        rig.close()
    return '; '.join(said)


def replay(ctx):
    ctx.replay = os.path.abspath(ctx.replay)
    os.chdir(ctx.work)
    d = json.load(open(ctx.replay))
    c = d['case']
    if c.get('probe') == 'descendant-reader':
        for clause, detail in probe_descendant_reader(c['mode']):
            if clause.startswith(OWNER[ctx.pid]):
                ctx.fail(clause, c, detail=detail, signature=d.get('signature'))
        return common.conclude(ctx)[0]
    if c.get('probe') == 'popen-read-error':
        for clause, detail in probe_popen_read_error(c['mode']):
            if clause.startswith(OWNER[ctx.pid]):
                ctx.fail(clause, c, detail=detail, signature=d.get('signature'))
        return common.conclude(ctx)[0]
    job = {'transport': c['transport'], 'init': c['init'], 'widx': c.get('widx', 0), 'work': ctx.work,
           'steps': [tuple(s) for s in c['steps']], 'confirm': False, 'env': c.get('env'), 'rig': c.get('rig') or {}}
    out = run_walk(job)
    print(json.dumps({k: out[k] for k in ('fails', 'machinery', 'steps')}, indent=1, default=repr)[:4000])
    job['kind'] = out['kind']
    for f in out['fails']:
        if f['clause'].startswith(OWNER[ctx.pid]):
            ctx.fail(f['clause'], c, detail=f['detail'], signature=signature(job, f))
    status, _, _ = common.conclude(ctx)
    return status

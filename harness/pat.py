"""Python side of spec/Pat.tla: abstract pattern forms -> concrete Python patterns.

An abstract pattern is a dict mirroring the TLA+ record, e.g. {'t': 'lit', 'w': ['a', 'b']}.
A `Mapping` turns abstract characters into concrete ones (bytes or str mode).
"""
import re
import pexpect

EOFM = {'t': 'EOF'}
TMOM = {'t': 'TIMEOUT'}


def lit(w):
    return {'t': 'lit', 'w': list(w)}


def anyn(n):
    return {'t': 'any', 'n': n}


END = {'t': 'end'}


def star(c):
    return {'t': 'star', 'c': c}


def plus(c):
    return {'t': 'plus', 'c': c}


def alt(w, v):
    return {'t': 'alt', 'w': list(w), 'v': list(v)}


def litend(w):
    return {'t': 'litend', 'w': list(w)}


class Mapping(object):
    """abstract one-character strings <-> concrete characters.  'n' is always the line feed."""

    def __init__(self, table, unicode_mode=False, encoding='utf-8'):
        self.table = dict(table)
        self.table.setdefault('n', '\n')
        self.table.setdefault('r', '\r')
        self.unicode_mode = unicode_mode
        self.encoding = encoding
        self.back = {v: k for k, v in self.table.items()}
        assert len(self.back) == len(self.table)

    def text(self, abstract):
        """abstract sequence -> concrete str (unicode mode) or bytes"""
        s = ''.join(self.table[c] for c in abstract)
        return s if self.unicode_mode else s.encode('latin-1')

    def raw(self, abstract):
        """abstract sequence -> the bytes the child writes"""
        s = ''.join(self.table[c] for c in abstract)
        return s.encode(self.encoding) if self.unicode_mode else s.encode('latin-1')

    def abstract(self, concrete):
        """concrete str/bytes (API type) -> list of abstract characters"""
        if isinstance(concrete, bytes):
            concrete = concrete.decode('latin-1')
        return [self.back.get(c, 'U+%04X' % ord(c)) for c in concrete]

    def regex_text(self, p):
        e = lambda w: ''.join(re.escape(self.table[c]) for c in w)
        t = p['t']
        if t == 'lit':
            s = e(p['w'])
        elif t == 'any':
            s = '.{%d}' % p['n']
        elif t == 'end':
            s = '$'
        elif t == 'star':
            s = e([p['c']]) + '*'
        elif t == 'plus':
            s = e([p['c']]) + '+'
        elif t == 'alt':
            s = e(p['w']) + '|' + e(p['v'])
        elif t == 'litend':
            s = e(p['w']) + '$'
        else:
            raise ValueError(p)
        return s if self.unicode_mode else s.encode('latin-1')

    def concrete(self, p, exact):
        """abstract pattern -> the object handed to expect / expect_exact"""
        if p['t'] == 'EOF':
            return pexpect.EOF
        if p['t'] == 'TIMEOUT':
            return pexpect.TIMEOUT
        if exact:
            assert p['t'] == 'lit'
            return self.text(p['w'])
        return self.regex_text(p)


ASCII = Mapping({'a': 'a', 'b': 'b'})
UNI = Mapping({'a': 'é', 'b': 'b'}, unicode_mode=True)   # 'a' becomes a 2-byte character


def naive_search(pats, text, mapping):
    """Reference used only by the Pat self-test: (index1, start, end) as Pat!NaiveSearch."""
    best = (0, 0, 0)
    conc = mapping.text(text)
    for k, p in enumerate(pats):
        if p['t'] in ('EOF', 'TIMEOUT'):
            continue
        m = re.compile(mapping.regex_text(p), re.DOTALL).search(conc)
        if m and (best[0] == 0 or m.start() < best[1]):
            best = (k + 1, m.start(), m.end())
    return best

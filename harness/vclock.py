"""A virtual clock that can stand in for the `time` module inside pexpect modules.

`VClock().install(module, ...)` rebinds the name `time` in the given pexpect modules; the
real module is restored by `uninstall()`.  `sleep(dt)` advances the clock, `time()` reads it.
"""
import time as _real_time


class VClock(object):
    def __init__(self, start=1000.0):
        self.now = float(start)
        self.sleeps = []
        self._installed = []
        self.on_advance = None

    # the part of the `time` API pexpect uses
    def time(self):
        return self.now

    def monotonic(self):
        return self.now

    def sleep(self, dt):
        self.sleeps.append(dt)
        if dt and dt > 0:
            self.set(self.now + dt)

    def advance(self, dt):
        self.set(self.now + dt)

    def set(self, t):
        self.now = float(t)
        if self.on_advance is not None:
            self.on_advance()

    def __getattr__(self, name):          # anything else: the real thing
        return getattr(_real_time, name)

    def install(self, *modules):
        for m in modules:
            self._installed.append((m, m.__dict__.get('time')))
            m.time = self
        return self

    def uninstall(self):
        for m, old in self._installed:
            if old is None:
                del m.time
            else:
                m.time = old
        self._installed = []

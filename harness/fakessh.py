"""A scripted ssh server/client dialogue for pxssh.login(): a pxssh subclass whose transport is a
reactive fake server (no process, no pty), driven under the virtual clock.

Server configuration = a list of pre-login stages followed by a final state:
   'banner'      prints a banner that contains prompt-like characters ($ and #)
   'hostkey'     asks "Are you sure you want to continue connecting (yes/no)?" and waits for yes
   'password'    asks for the password; a wrong answer gives "Permission denied" and asks again
                 (3 attempts, then "Connection closed by remote host" and the end of the stream)
   'passphrase'  asks for the key passphrase, same discipline
   'denied'      prints "Permission denied (publickey)." and closes
   'termtype'    asks "Terminal type?" and waits for a line
   'notice'      prints a message of the day that mentions "password:" (what login()'s password_regex
                 option exists for) and contains no prompt character
   'wait'        prints nothing until the client has waited a (virtual) second: what follows arrives
                 in a later read than what went before
 A server may also be a jump host: with hop=(stages, final, password) set, the line "ssh ..." typed at
 its shell starts a second dialogue (the inner host, with its own texts) - login(spawn_local_ssh=False).
 final: 'shell:<flavour>' (sh | csh | zsh), 'silent' (nothing more, connection stays open),
        'closed' ("Connection closed by remote host" + end of stream), 'exit' (end of stream)
Everything the server prints and every line the client sends is recorded, in order, as tokens.
"""
import re, time
import pexpect
from pexpect import pxssh, spawn
from pexpect.exceptions import EOF, TIMEOUT

TEXT = {
    'banner': "Welcome to host #1, your balance: 5$ only\r\n",
    'hostkey': "The authenticity of host 'h (1.2.3.4)' can't be established.\r\nAre you sure you want to continue connecting (yes/no)? ",
    'password': "user@h's password: ",
    'passphrase': "Enter passphrase for key '/home/u/.ssh/id_rsa': ",
    'denied': "Permission denied, please try again.\r\n",
    'denied_final': "Permission denied (publickey,password).\r\n",
    'termtype': "Terminal type? ",
    'closed': "Connection closed by remote host\r\n",
    'yesno': "Please type 'yes' or 'no': ",
    'notice': "Notice: change your password: it expires in 3 days\r\n",
    # a message of the day that mentions the word without asking anything (no "password:", no prompt character),
    # followed by lines that contain a colon
    'expiry': "Your password will expire in 3 days.\r\nLast login: Mon Oct  5 05:00:00 2026 from 10.0.0.1\r\n",
}
ORIG_PROMPT = {'sh': 'user@h:~$ ', 'csh': 'h% # ', 'zsh': 'h$ '}
# the inner host of a two-hop login: other user, other prompts
INNER_TEXT = {'password': "me@inner's password: ", 'banner': "Welcome to inner, rate 3$/h, ticket #7\r\n"}
INNER_PROMPT = {'sh': 'me@inner:~$ ', 'csh': 'inner% # ', 'zsh': 'inner$ '}
INNER_ORIGINAL_PROMPT = r'(?:me@inner:~\$ |inner% # |inner\$ )$'
INNER_PASSWORD_REGEX = r"(?i)me@inner's password:"
OUTER_PASSWORD_REGEX = r"(?i)user@h's password:|passphrase for key"
OUTER_ORIGINAL_PROMPT = r'(?:user@h:~\$ |h% # |h\$ )$'
UNIQUE = '[PEXPECT]$ '


class FakeServer(object):
    def __init__(self, stages, final, password='secret'):
        self.stages = list(stages)
        self.final = final
        self.password = password
        self.out = ''               # printed, not yet read by the client
        self.eof = False
        self.log = []               # ('srv', token) | ('cli', kind, text)
        self.attempts = 0
        self.state = None
        self.prompt = None
        self.flavour = None
        self.texts = dict(TEXT)
        self.orig_prompts = dict(ORIG_PROMPT)
        self.hop = None             # (stages, final, password) of the inner host, if this is a jump host
        self.hops = 0
        self.echo = False           # the remote shell's terminal echoes what is typed at it
        self.advance()

    def emit(self, token, text=None):
        self.out += self.texts[token] if text is None else text
        self.log.append(('srv', token))

    def waited(self):
        """the client has waited a second while the server was in a 'wait' stage"""
        if self.state == 'wait':
            self.advance()
            return True
        return False

    def advance(self):
        """enter the next stage and print what it prints"""
        while True:
            if self.stages:
                st = self.stages.pop(0)
                if st in ('banner', 'notice', 'expiry'):
                    self.emit(st)
                    continue
                if st == 'wait':
                    self.state = 'wait'
                    return
                if st == 'denied':
                    self.emit('denied_final')
                    self.finish('closed')
                    return
                self.state = st
                self.emit(st)
                return
            self.finish(self.final)
            return

    def finish(self, final):
        if final.startswith('shell:'):
            self.flavour = final.split(':')[1]
            self.state = 'shell'
            self.prompt = self.orig_prompts[self.flavour]
            self.emit('prompt', self.prompt)
        elif final == 'silent':
            self.state = 'silent'
        elif final == 'closed':
            self.state = 'gone'
            self.emit('closed')
            self.eof = True
        else:
            self.state = 'gone'
            self.eof = True

    def classify(self, line):
        if line == 'yes':
            return 'yes'
        if line == self.password:
            return 'password'
        if line == '':
            return 'newline'
        if line.startswith("PS1='[PEXPECT]\\$"):
            return 'ps1_sh'
        if line.startswith('set prompt='):
            return 'ps1_csh'
        if line.startswith('prompt restore'):
            return 'zsh_restore'
        if line.startswith("PS1='[PEXPECT]%"):
            return 'ps1_zsh'
        if line == 'unset PROMPT_COMMAND':
            return 'unset'
        return 'line'

    def receive(self, data):
        for line in data.split('\n')[:-1]:
            kind = self.classify(line)
            if self.state == 'termtype' and kind == 'line':
                kind = 'termtype'
            self.log.append(('cli', kind, line, self.state))
            if self.echo and self.state == 'shell':
                self.out += line + '\r\n'
            self.react(kind, line)

    def react(self, kind, line):
        st = self.state
        if st == 'hostkey':
            if kind == 'yes':
                self.advance()
            else:
                self.emit('yesno')
        elif st in ('password', 'passphrase'):
            if kind == 'password':
                self.advance()
            else:
                self.attempts += 1
                if self.attempts >= 3:
                    self.emit('denied_final')
                    self.finish('closed')
                else:
                    self.emit('denied')
                    self.emit(st)
        elif st == 'termtype':
            self.advance()
        elif st == 'shell':
            fl = self.flavour
            if kind == 'ps1_sh' and fl == 'sh':
                self.prompt = UNIQUE
            elif kind == 'ps1_sh' and fl == 'zsh':
                self.prompt = '[PEXPECT]\\$ '
            elif kind == 'ps1_sh' and fl == 'csh':
                self.emit('noise', "PS1=[PEXPECT]\\$ : Command not found.\r\n")
            elif kind == 'ps1_csh' and fl == 'csh':
                self.prompt = UNIQUE
            elif kind == 'ps1_csh' and fl != 'csh':
                pass
            elif kind == 'ps1_zsh' and fl == 'zsh':
                self.prompt = UNIQUE
            elif kind == 'line' and line.startswith('ssh ') and self.hop is not None:
                stages, final, password = self.hop
                self.hop = None
                self.hops += 1
                self.stages, self.final, self.password = list(stages), final, password
                self.texts.update(INNER_TEXT)
                self.orig_prompts = dict(INNER_PROMPT)
                self.attempts = 0
                self.flavour = None
                self.log.append(('hop',))
                self.advance()
                return
            elif kind == 'line':
                m = re.match(r'^echo (.*)$', line)
                if m:
                    self.emit('output', m.group(1) + '\r\n')
            self.emit('prompt', self.prompt)
        # silent / gone: nothing


class _SpawnShim(object):
    """stands in for the name `spawn` inside pexpect.pxssh: login() calls spawn._spawn(self, cmd)
    explicitly (which would start a real ssh process); everything else is the real class"""
    __init__ = spawn.__init__

    @staticmethod
    def _spawn(self, command, args=[], preexec_fn=None, dimensions=None):
        self.command = command
        self.name = '<fake ssh>'


def install_shim():
    pxssh.spawn = _SpawnShim


def uninstall_shim():
    pxssh.spawn = spawn


class LoginHung(BaseException):
    """raised by the fake transport when a login() keeps reading far beyond every configured timeout (virtual time):
    the call would never come back.  A BaseException, so that no `except Exception` inside pexpect swallows it."""


class FakePxssh(pxssh.pxssh):
    """pxssh whose process is a FakeServer; time is the harness's virtual clock"""

    def __init__(self, server, clock, **kw):
        pxssh.pxssh.__init__(self, **kw)
        self.server = server
        self.clock = clock
        self.closed = False
        self.terminated = False
        self.child_fd = 99999
        self.delaybeforesend = None
        self.delayafterread = None
        self.chunk = None           # largest piece one read delivers (None: whatever was asked for)
        self.nreads = 0
        self.t_start = clock.now
        self.hang_after = 3600.0    # virtual seconds / reads after which a call is declared not to come back
        import types
        # spawn.flag_eof is a property stored on the pty process object
        self.ptyproc = types.SimpleNamespace(flag_eof=False, terminated=False, closed=False, pid=None, exitstatus=None,
                                             signalstatus=None, status=None, delayafterclose=0, delayafterterminate=0)

    def _spawn(self, command, args=[], preexec_fn=None, dimensions=None):
        self.command = command
        self.name = '<fake ssh>'

    def read_nonblocking(self, size=1, timeout=-1):
        if self.closed:
            raise ValueError('I/O operation on closed file.')
        if timeout == -1:
            timeout = self.timeout
        self.nreads += 1
        if self.clock.now - self.t_start > self.hang_after or self.nreads > 200000:
            raise LoginHung('still reading after %.0f virtual seconds / %d reads' % (self.clock.now - self.t_start, self.nreads))
        s = self.server
        if s.out:
            n = size if self.chunk is None else max(1, min(size, self.chunk))
            data, s.out = s.out[:n], s.out[n:]
            b = data.encode('utf-8')
            r = self._decoder.decode(b, final=False)
            self._log(r, 'read')
            return r
        if s.eof:
            self.flag_eof = True
            raise EOF('End Of File (EOF). Fake ssh.')
        if s.state == 'wait' and (timeout is None or timeout >= 1):
            self.clock.advance(1)
            s.waited()
            return self.read_nonblocking(size, None if timeout is None else timeout - 1)
        if timeout is None:
            raise RuntimeError('fake ssh: blocking read on a silent server')
        self.clock.advance(max(timeout, 0))
        raise TIMEOUT('Timeout exceeded.')

    def send(self, s):
        if self.closed:
            raise OSError(9, 'Bad file descriptor')
        s = self._coerce_send_string(s)
        self._log(s, 'send')
        text = s.decode('utf-8') if isinstance(s, bytes) else s
        self.server.receive(text)
        return len(s)

    def sendline(self, s=''):
        s = self._coerce_send_string(s)
        return self.send(s + self.linesep)

    def close(self, force=True):
        self.closed = True
        self.child_fd = -1

    def isalive(self):
        return not self.server.eof

"""Driver for the lifecycle checks (C09 exit status truth, C10 lifecycle safety).

A Case owns ONE real child (pexpect.spawn on a pty / PopenSpawn on pipes) or one real descriptor
(fdspawn / SocketSpawn), executes a sequence of lifecycle operations and environment actions on
it and records, after EACH operation, what the operation returned / raised, the public fields of
the object and the facts of the real kernel (/proc/<pid>/stat, /proc/self/fd).  The recorded
trace is judged by TLC against spec/LifecycleTrace.tla - nothing is judged here.

Determinism (no sleeps, no races):
 * the `time` name of pexpect.pty_spawn and ptyprocess.ptyprocess is rebound to a proxy whose
   sleep() does not sleep: the delayafterclose / delayafterterminate pauses exist "to give the
   kernel time to update the process status", and the harness makes that explicit instead:
 * the `os` name of the same modules is rebound to a proxy that forwards kill() and then WAITS
   for the signal's effect with os.waitid(P_PID, pid, WEXITED|WNOWAIT) / (WSTOPPED|WNOWAIT)
   (the child is then a zombie / stopped, not reaped by us).  Whether an effect is to be waited
   for is known to the harness because it chose the child's disposition (HUP/INT ignored or
   not, stopped or not); every such expectation is re-checked against /proc after the operation.
   The same is done when the pty master gets closed (the kernel sends SIGHUP + SIGCONT).
 * a call that blocks for ever (wait() on a running child) is recognised, without timing
   assumptions, by a watcher thread that sees the main thread asleep inside wait4(pid, 0) in
   /proc/self/task/<tid>/{stat,syscall}; it interrupts the call and the operation is logged as
   BLOCK.
 * "somebody else collects the dead child's status" is a schedule the harness chooses: either a
   helper thread calls os.waitpid() on the zombie (environment action `stolen`), or - `waitsteal` -
   the child is still running when pexpect polls it and, at the moment pexpect enters its BLOCKING
   waitpid(pid, 0), the child is made to exit and the helper thread reaps it first; the blocking
   call then fails with ECHILD exactly as it does when the foreign reaper wins the race.  The
   process-global variant (SIGCHLD ignored in the host program: the kernel discards the status) runs
   in a helper process of its own (lifecases.helper_main, AUTOREAP) - there waitid() cannot be the
   oracle (the kernel keeps nothing): the fate is the one the harness commanded, and the death is
   awaited by watching /proc/<pid> disappear.
 * as soon as the old descriptor number becomes free an "intruder" (one end of a socketpair with
   one byte pending) is dup2()ed onto it: whatever pexpect then does to that NUMBER is seen
   (bytes written to it, the pending byte consumed, the intruder closed).
"""
import errno, gc, os, signal, socket, sys, tempfile, threading, time as _time, platform
import pexpect
import pexpect.pty_spawn, pexpect.popen_spawn, pexpect.fdpexpect, pexpect.socket_pexpect
import ptyprocess.ptyprocess as _pp

PEER = os.path.join(os.path.dirname(os.path.abspath(__file__)), 'peers', 'lifepeer.sh')
SIGNAMES = {1: 'HUP', 2: 'INT', 9: 'KILL', 15: 'TERM', 18: 'CONT', 19: 'STOP'}
_WAIT4 = {'x86_64': 61, 'aarch64': 260}.get(platform.machine(), 61)
# signals whose default action is "dump core"
CORE_SIGNALS = (3, 4, 5, 6, 7, 8, 11, 24, 25, 31)
# True in the helper process that runs with SIGCHLD ignored (lifecases.helper_main)
AUTOREAP = False
LOG_ATTRS = ('logfile', 'logfile_read', 'logfile_send')


class Blocked(BaseException):
    """raised in the main thread when the watcher saw it asleep in a blocking wait4()"""


class Boom(Exception):
    """the exception that leaves the with-block"""


class HarnessError(Exception):
    pass


# ------------------------------------------------------------------------------------------
# process / descriptor facts
# ------------------------------------------------------------------------------------------
def proc_state(pid, ppid=None):
    """'run' | 'stop' | 'zombie' | 'reaped' from /proc/<pid>/stat (a recycled pid is not ours)"""
    try:
        with open('/proc/%d/stat' % pid) as f:
            s = f.read()
    except OSError:
        return 'reaped'
    rest = s[s.rindex(')') + 2:].split()
    if ppid is not None and int(rest[1]) != ppid:
        return 'reaped'
    c = rest[0]
    if c in 'RSDI':
        return 'run'
    if c in 'Tt':
        return 'stop'
    if c == 'Z':
        return 'zombie'
    return 'reaped'


def nfds():
    return len(os.listdir('/proc/self/fd'))


def zombie_children():
    me = os.getpid()
    n = 0
    try:
        kids = open('/proc/self/task/%d/children' % me).read().split()
    except OSError:
        kids = [d for d in os.listdir('/proc') if d.isdigit()]
    for k in kids:
        if proc_state(int(k), me) == 'zombie':
            n += 1
    return n


def fd_ino(fd):
    try:
        st = os.fstat(fd)
        return (st.st_dev, st.st_ino)
    except OSError:
        return None


# ------------------------------------------------------------------------------------------
# worker-global interposition (installed once per process, dispatches to the current case)
# ------------------------------------------------------------------------------------------
_current = None
_installed = False
_main_tid = None
_main_ident = None
_armed = threading.Event()
_fired = threading.Event()
_gen = [0]                        # one generation per guarded operation


class _TimeProxy(object):
    def sleep(self, t):
        if _current is not None:
            _current.settle()
        # no real pause: the effect of every signal has been waited for explicitly

    def __getattr__(self, name):
        return getattr(_time, name)


class _OsProxy(object):
    def kill(self, pid, sig):
        w = _current
        if w is not None and pid == w.pid:
            w.syscalls.append('kill:%d' % sig)
            if w.reaped_seen:
                # this object's own waitpid() has collected the child: the number now belongs to nobody, or to somebody
                # else - a signal sent to it is a stale handle in use.  Recorded, answered as the kernel would, not sent.
                w.kill_after_reap = True
                raise ProcessLookupError(errno.ESRCH, 'No such process')
            if w.stolen:
                # the pid is nobody's (or already somebody else's): what the kernel answers for a
                # pid that does not exist - never signal a number that may have been recycled
                raise ProcessLookupError(errno.ESRCH, 'No such process')
            os.kill(pid, sig)
            w.mirror_signal(sig)
            return
        return os.kill(pid, sig)

    def waitpid(self, pid, opts):
        w = _current
        if w is not None and pid == w.pid and opts == 0 and w.plan is not None:
            w.fire_plan()          # the child exits and its status goes to someone else, just before we block
        r = os.waitpid(pid, opts)
        if w is not None and pid == w.pid and r[0] == pid:
            w.reaped_seen = True
        return r

    def __getattr__(self, name):
        return getattr(os, name)


def _on_usr1(signum, frame):
    if _armed.is_set() and _fired.is_set():
        raise Blocked()


def _watch(fd_stat, fd_sys):
    """interrupt the main thread when it sleeps in wait4(<child>, .., options=0).  The two /proc
    files were opened once, before any case started: the watcher never allocates a descriptor
    while a case runs (it would disturb the /proc/self/fd observations)."""
    while True:
        _armed.wait()
        gen = _gen[0]
        while _armed.is_set() and not _fired.is_set() and _gen[0] == gen:
            try:
                s = os.pread(fd_stat, 1024, 0).decode()
                if s[s.rindex(')') + 2] == 'S':
                    f = os.pread(fd_sys, 512, 0).decode().split()
                    if f and f[0] == str(_WAIT4) and int(f[3], 16) == 0 and _current is not None \
                            and int(f[1], 16) & 0xffffffff == _current.pid:
                        _fired.set()
                        signal.pthread_kill(_main_ident, signal.SIGUSR1)
                        break
            except (OSError, ValueError, IndexError):
                pass
            _time.sleep(0.0003)
        while _armed.is_set() and _gen[0] == gen:       # fired: wait for this operation to end
            _time.sleep(0.0003)


def install():
    """rebind os / time in the modules under test (idempotent; per process)"""
    global _installed, _main_tid, _main_ident
    if _installed:
        return
    _installed = True
    _main_tid = threading.get_native_id()
    _main_ident = threading.get_ident()
    tp, op = _TimeProxy(), _OsProxy()
    pexpect.pty_spawn.time = tp
    _pp.time = tp
    pexpect.pty_spawn.os = op
    _pp.os = op
    pexpect.popen_spawn.os = op
    signal.signal(signal.SIGUSR1, _on_usr1)
    fd_stat = os.open('/proc/self/task/%d/stat' % _main_tid, os.O_RDONLY)
    fd_sys = os.open('/proc/self/task/%d/syscall' % _main_tid, os.O_RDONLY)
    t = threading.Thread(target=_watch, args=(fd_stat, fd_sys), daemon=True)
    t.start()


class guard(object):
    """arm the block watcher around one operation"""

    def __enter__(self):
        _armed.clear()
        _gen[0] += 1
        _fired.clear()
        _armed.set()

    def __exit__(self, *a):
        _armed.clear()
        return False


# ------------------------------------------------------------------------------------------
# the intruder: someone else who gets the old descriptor number
# ------------------------------------------------------------------------------------------
class Intruder(object):
    def __init__(self, number):
        self.number = number
        import fcntl
        a, b = socket.socketpair()
        # keep the pair itself away from the low numbers (one of them may just have received
        # the very number we are about to occupy)
        ha = fcntl.fcntl(a.fileno(), fcntl.F_DUPFD, 200)
        hb = fcntl.fcntl(b.fileno(), fcntl.F_DUPFD, 200)
        a.close()
        b.close()
        self.a = socket.socket(fileno=ha)     # second handle on the intruder's open file (MSG_PEEK)
        self.b = socket.socket(fileno=hb)
        self.b.send(b'I')                     # one byte pending for whoever reads the old number
        os.dup2(ha, number)                   # the NUMBER is now a bare descriptor of "someone else"
        self.ino = fd_ino(number)
        self.a.setblocking(False)
        self.b.setblocking(False)

    def touched(self):
        """somebody wrote to / read from / closed the old descriptor NUMBER"""
        if fd_ino(self.number) != self.ino:
            return True
        try:
            if self.b.recv(100):
                return True
        except BlockingIOError:
            pass
        try:
            if self.a.recv(1, socket.MSG_PEEK) != b'I':
                return True
        except BlockingIOError:
            return True
        return False

    def close(self):
        if fd_ino(self.number) == self.ino:
            os.close(self.number)
        self.a.close()
        self.b.close()


# ------------------------------------------------------------------------------------------
# cases
# ------------------------------------------------------------------------------------------
class Case(object):
    transport = None

    def __init__(self, workdir, log='none'):
        install()
        self.workdir = workdir
        self.events = []
        self.syscalls = []
        self.intruder = None
        self.pid = -1
        self.reaped_seen = False
        self.kill_after_reap = False
        self.stolen = False
        self.plan = None
        self.gone = False
        self.logattr = log          # 'none' | 'logfile' | 'logfile_read' | 'logfile_send'
        self.logf = None
        self.low = None
        self.base_fdset = set(os.listdir('/proc/self/fd'))
        self.base_fds = len(self.base_fdset)
        self.base_zombies = zombie_children()

    # ---- the caller's log file ----
    def open_log(self):
        """(after the baseline of descriptors was taken) the log file the caller attaches: an
        unlinked scratch file - one descriptor, accounted for in nlog()"""
        if self.logattr == 'none':
            return None
        if self.logattr not in LOG_ATTRS:
            raise HarnessError('log attribute %r' % self.logattr)
        fd, path = tempfile.mkstemp(dir=self.workdir, prefix='log.')
        self.logf = os.fdopen(fd, 'wb')
        os.unlink(path)
        return self.logf

    def attach_log(self, c):
        if self.logf is not None:
            setattr(c, self.logattr, self.logf)

    def nlog(self):
        return 1 if self.logf is not None and not self.logf.closed else 0

    def init_event(self, **kw):
        e = {'e': 'init', 'tr': self.transport, 'disp': 'default', 'log': 'none' if self.logattr == 'none' else 'open',
             'lsend': self.logattr != 'logfile_read',
             # the process-global circumstances of the case (not judged by the trace specification; keeps the
             # traces of the helper-process worlds apart from equal-looking ones of the plain world)
             'world': 'sigchld-ignored' if AUTOREAP else 'plain' if self.low is None else 'descriptor-%d' % self.low}
        e.update(kw)
        return e

    def close_log(self):
        if self.logf is not None and not self.logf.closed:
            self.logf.close()

    # ---- to be provided by the transports ----
    def fire_plan(self):
        self.plan = None

    def settle(self):
        pass

    def mirror_signal(self, sig):
        pass

    def fd_state(self):
        """'open' (still ours) | 'closed' | 'reused' (the intruder owns the number)"""
        ino = fd_ino(self.fdnum)
        if ino is None:
            return 'closed'
        if self.intruder is not None and ino == self.intruder.ino:
            return 'reused'
        return 'open' if ino == self.fd_ino0 else 'other'

    def maybe_reuse(self):
        if self.intruder is None and self.fdnum >= 0 and fd_ino(self.fdnum) is None:
            self.intruder = Intruder(self.fdnum)
            self.events.append({'e': 'env', 'a': 'reuse', 'v': 0})

    def run_ops(self, items):
        """items: ('op', name, arg) | ('env', action, value)"""
        global _current
        _current = self
        try:
            for it in items:
                if self.gone and it[0] == 'op':
                    break
                if it[0] == 'env':
                    if self.env(it[1], it[2]) is not False:       # False: nothing happened yet (a plan was armed)
                        self.events.append({'e': 'env', 'a': it[1], 'v': it[2]})
                        self.after_env()
                else:
                    self.op(it[1], it[2])
                self.maybe_reuse()
        finally:
            _current = None
        return self.events

    def after_env(self):
        pass

    def op(self, name, arg, final=False):
        self.syscalls = []
        self.in_op = True
        try:
            ret, rv = self.call(name, arg)
        finally:
            self.in_op = False
        ev = {'e': 'op', 'op': name, 'arg': arg, 'ret': ret, 'rv': rv, 'final': final,
              'exc': ret not in ('None', 'True', 'False', 'int', 'val')}
        ev.update(self.observe())
        ev['touched'] = bool(self.intruder.touched()) if self.intruder is not None else False
        ev['sys'] = list(self.syscalls)
        ev['kar'] = bool(self.kill_after_reap)
        self.kill_after_reap = False
        if name == 'Del':
            # an exception that travelled through pexpect's frames (TIMEOUT, EOF, a harness interruption) leaves the usual
            # exception <-> traceback <-> frame cycle behind, which holds the object: only histories in which no
            # operation raised are judged
            raised_before = any(e.get('e') == 'op' and e.get('exc') for e in self.events)
            ev['cycle'] = bool(getattr(self, 'del_cycle', False)) and not raised_before
        self.events.append(ev)

    def call(self, name, arg):
        c = self.child
        ret, rv = 'None', -1
        try:
            with guard():
                r = self.dispatch(c, name, arg)
            if r is True:
                ret = 'True'
            elif r is False:
                ret = 'False'
            elif r is None:
                ret = 'None'
            elif isinstance(r, int):
                ret, rv = 'int', r
            else:
                ret = 'val'
        except Blocked:
            ret = 'BLOCK'
        except Boom:
            ret = 'Boom'
        except pexpect.TIMEOUT:
            ret = 'TIMEOUT'
        except pexpect.EOF:
            ret = 'EOF'
        except pexpect.ExceptionPexpect:
            ret = 'ExceptionPexpect'
        except AttributeError:
            ret = 'AttributeError'
        except ValueError:
            ret = 'ValueError'
        except OSError:
            ret = 'OSError'
        except Exception as e:
            ret = 'Exc:' + type(e).__name__
        finally:
            _armed.clear()
        c = None
        if name == 'Del':
            # dropping the last reference releases the object at once (reference counting); an object that is only
            # freed by the cycle collector keeps its descriptor and its child until some later, unrelated allocation
            was = gc.isenabled()
            gc.disable()
            try:
                before = nfds()
                self.child = None
                self.gone = True
                after_drop = nfds()
                gc.collect()
                after_gc = nfds()
            finally:
                if was:
                    gc.enable()
            self.del_cycle = (after_gc < after_drop)
        return ret, rv

    READ_TIMEOUT = 0

    def dispatch(self, c, name, arg):
        if name == 'IsAlive':
            return c.isalive()
        if name == 'Wait':
            return c.wait()
        if name == 'Kill':
            return c.kill(arg)
        if name == 'Terminate':
            return c.terminate(force=bool(arg))
        if name == 'Close':
            if self.transport in ('fd', 'socket'):
                return c.close()
            return c.close(force=bool(arg))
        if name == 'SendEof':
            return c.sendeof()
        if name == 'Send':
            return c.send(b'x')
        if name == 'Read':
            c.read_nonblocking(1, self.READ_TIMEOUT)
            return 'data'
        if name == 'ExpectEOF':
            return c.expect(pexpect.EOF, timeout=self.READ_TIMEOUT)
        if name == 'WithExit':
            with c:
                if arg:
                    raise Boom()
            return None
        if name == 'Del':
            return None          # the reference is dropped by call()
        raise HarnessError('unknown operation %s' % name)

    def finish(self):
        """final forced close as a logged operation (unless the object is gone), release of the
        harness' own resources, then the per-scenario leak facts"""
        global _current
        _current = self
        try:
            if not self.gone:
                self.op('Close', 1, final=True)
                self.maybe_reuse()
        finally:
            _current = None
        self.release()
        self.events.append(self.leak_facts())
        return self.events

    in_op = False

    def release(self):
        if self.intruder is not None:
            self.intruder.close()
            self.intruder = None
        self.close_log()

    def leak_facts(self):
        """descriptors / zombies left behind by this case; whatever is left is then removed so that
        the next case of this worker starts clean (the leak is charged to THIS case only)"""
        d = nfds() - self.base_fds
        z = zombie_children() - self.base_zombies
        p = proc_state(self.pid, os.getpid()) if self.pid > 0 else 'reaped'
        if d != 0 or z != 0 or p != 'reaped' and isinstance(self, ChildCase):
            gc.collect()
            for f in os.listdir('/proc/self/fd'):
                if f not in self.base_fdset:
                    try:
                        os.close(int(f))
                    except OSError:
                        pass
            if self.pid > 0 and proc_state(self.pid, os.getpid()) != 'reaped':
                try:
                    os.kill(self.pid, signal.SIGKILL)
                    os.waitpid(self.pid, 0)
                except OSError:
                    pass
        return {'e': 'end', 'dfds': d, 'zomb': z, 'proc': p}

    def abort(self):
        """machinery-level cleanup: nothing of this case may survive"""
        global _current
        _current = None
        _armed.clear()
        try:
            if self.pid > 0 and proc_state(self.pid, os.getpid()) != 'reaped':
                try:
                    os.kill(self.pid, signal.SIGKILL)
                except OSError:
                    pass
                try:
                    os.waitpid(self.pid, 0)
                except OSError:
                    pass
        finally:
            try:
                self.release()
            except Exception:
                pass


def status_core(st):
    """WCOREDUMP of the status word the object shows"""
    return bool(st is not None and os.WIFSIGNALED(st) and os.WCOREDUMP(st))


def core_probe(workdir):
    """does a child of this process that raises its RLIMIT_CORE and dies of SIGQUIT in a writable
    directory get the 'dumped core' flag from this kernel?  -> (flag seen, description).  A plain
    fork / exec of /bin/sh / waitid+waitpid - no pexpect involved."""
    import resource, shutil
    try:
        pattern = open('/proc/sys/kernel/core_pattern').read().strip()
    except OSError:
        pattern = '?'
    soft, hard = resource.getrlimit(resource.RLIMIT_CORE)
    d = tempfile.mkdtemp(dir=workdir, prefix='coreprobe.')
    try:
        pid = os.fork()
        if pid == 0:
            try:
                os.chdir(d)
                os.execv('/bin/sh', ['/bin/sh', '-c', 'ulimit -c unlimited 2>/dev/null || ulimit -c $(ulimit -H -c); kill -QUIT $$'])
            finally:
                os._exit(97)
        si = os.waitid(os.P_PID, pid, os.WEXITED | os.WNOWAIT)
        _, st = os.waitpid(pid, 0)
        flag = os.WIFSIGNALED(st) and os.WCOREDUMP(st)
        wrote = sorted(os.listdir(d))
        desc = 'core_pattern=%r, RLIMIT_CORE hard limit %s, probe child killed by SIGQUIT: waitid si_code=%s%s, WCOREDUMP(status)=%s, files written %s' % (
            pattern, 'unlimited' if hard == resource.RLIM_INFINITY else hard, si.si_code,
            ' (CLD_DUMPED)' if si.si_code == os.CLD_DUMPED else '', bool(flag), wrote)
        return bool(flag) and si.si_code == os.CLD_DUMPED, desc
    finally:
        shutil.rmtree(d, ignore_errors=True)


def status_pair(st):
    if st is None:
        return 'none', -1
    if os.WIFEXITED(st):
        return 'exit', os.WEXITSTATUS(st)
    if os.WIFSIGNALED(st):
        return 'sig', os.WTERMSIG(st)
    return 'other', st


class ChildCase(Case):
    """common part of the cases with a real child process steered through a FIFO"""

    def __init__(self, workdir, disp, log='none'):
        Case.__init__(self, workdir, log)
        self.disp = disp
        self.dir = tempfile.mkdtemp(dir=workdir)
        self.fifo = os.path.join(self.dir, 'cmd')
        os.mkfifo(self.fifo)
        self.cmd = None
        # what the harness knows about the child it built (used only to know what to wait for)
        self.k_state = 'run'
        self.k_pend = set()
        self.k_fd_closed = False
        self.fate = ('none', -1)
        self.fate_core = False
        self.commanded = None
        self.stolen_logged = False

    def attach(self):
        self.cmd = os.open(self.fifo, os.O_WRONLY)      # returns once the peer opened its end: traps are set
        self.events.append(self.init_event(disp=self.disp))

    # ---- synchronisation: wait for the effect of a signal ----
    def _dies(self, sig):
        self.k_state = 'zombie'
        self.k_pend = set()
        if AUTOREAP:
            # SIGCHLD is ignored in this process: the kernel reaps the child itself and keeps no status.
            # The death is awaited by watching the process disappear; the fate is the one commanded.
            if self.in_op and not self.in_plan:
                raise HarnessError('a death caused by the operation itself cannot be placed in the trace when SIGCHLD is ignored')
            while proc_state(self.pid, os.getpid()) != 'reaped':
                os.sched_yield()
            if self.fate[0] == 'none':
                self.fate = self.commanded or ('sig', sig)
            self.stolen = True
            self.reaped_seen = True
            return
        self.note_fate(os.waitid(os.P_PID, self.pid, os.WEXITED | os.WNOWAIT))

    in_plan = False

    def note_fate(self, si):
        """the REAL fate, as the kernel reports it (the zombie is left for pexpect to reap)"""
        if si is not None and self.fate[0] == 'none':
            self.fate = ('exit', si.si_status) if si.si_code == os.CLD_EXITED else ('sig', si.si_status)
            self.fate_core = si.si_code == os.CLD_DUMPED

    def real_fate(self):
        if self.fate[0] == 'none' and not self.reaped_seen and not AUTOREAP:
            try:
                self.note_fate(os.waitid(os.P_PID, self.pid, os.WEXITED | os.WNOWAIT | os.WNOHANG))
            except OSError:
                pass
        return {'fk': self.fate[0], 'fv': self.fate[1], 'fc': self.fate_core}

    def after_env(self):
        # SIGCHLD ignored: dying and losing the status to the kernel are one step
        if AUTOREAP and self.stolen and not self.stolen_logged:
            self.stolen_logged = True
            self.events.append({'e': 'env', 'a': 'stolen', 'v': 0})

    def steal(self):
        """somebody else in the program (a helper thread) calls waitpid() on the zombie first"""
        if self.k_state != 'zombie' or self.reaped_seen:
            raise HarnessError('nothing to steal')
        got = []
        t = threading.Thread(target=lambda: got.append(os.waitpid(self.pid, 0)))
        t.start()
        t.join()
        if not got or got[0][0] != self.pid:
            raise HarnessError('the foreign waitpid did not get the child')
        self.stolen = True
        self.reaped_seen = True

    def fire_plan(self):
        """pexpect is about to block in waitpid(pid, 0) on a child its poll saw running: the child
        exits now and its status goes to someone else before the blocking call is entered"""
        kind, code = self.plan
        self.plan = None
        if self.k_state != 'run':
            return
        self.in_plan = True
        try:
            self.env('exit', code)
            self.events.append({'e': 'env', 'a': 'exit', 'v': code})
            if not AUTOREAP:
                self.steal()
            self.stolen_logged = True
            self.events.append({'e': 'env', 'a': 'stolen', 'v': 0})
        finally:
            self.in_plan = False

    def mirror_signal(self, sig):
        if self.k_state not in ('run', 'stop'):
            return
        ignored = self.disp == 'ignore' and sig in (signal.SIGHUP, signal.SIGINT)
        if sig == signal.SIGKILL:
            self._dies(sig)
        elif sig == signal.SIGSTOP:
            if self.k_state == 'run':
                os.waitid(os.P_PID, self.pid, os.WSTOPPED | os.WNOWAIT)
                self.k_state = 'stop'
        elif sig == signal.SIGCONT:
            if self.k_state == 'stop':
                self.k_state = 'run'
                if self.k_pend:
                    self._dies(min(self.k_pend))
                else:
                    while proc_state(self.pid) == 'stop':
                        os.sched_yield()
        elif ignored:
            pass
        elif sig in (signal.SIGCHLD, signal.SIGURG, signal.SIGWINCH, signal.SIGTSTP, signal.SIGTTIN, signal.SIGTTOU):
            raise HarnessError('signal %d not in the harness alphabet' % sig)
        else:
            # default action: terminate (or dump core); the peer installs no handlers
            if self.k_state == 'run':
                self._dies(sig)
            else:
                self.k_pend.add(sig)

    def env(self, action, value):
        if action == 'exit':
            if self.k_state != 'run':
                raise HarnessError('exit command for a child that cannot read it')
            self.commanded = ('exit', value)
            os.write(self.cmd, b'x%d\n' % value)
            self._dies(0)
        elif action == 'selfkill':
            if self.k_state != 'run' or (self.disp == 'ignore' and value in (1, 2)):
                raise HarnessError('kill command for a child that cannot read it / ignores the signal')
            self.commanded = ('sig', value)
            os.write(self.cmd, b'k%d\n' % value)
            self._dies(value)
        elif action == 'sig':
            if self.k_state in ('run', 'stop'):
                os.kill(self.pid, value)
                self.mirror_signal(value)
        elif action == 'stolen':
            self.steal()
            self.stolen_logged = True
        elif action == 'waitsteal':
            self.plan = ('waitsteal', value)
            return False
        elif action == 'logclose':
            self.close_log()
        else:
            raise HarnessError(action)

    def release(self):
        Case.release(self)
        if self.cmd is not None:
            os.close(self.cmd)
            self.cmd = None
        paths = [self.fifo]
        if self.disp == 'core':
            try:
                paths += [os.path.join(self.dir, f) for f in os.listdir(self.dir) if f.startswith('core')]
            except OSError:
                pass
        for p in paths:
            try:
                os.unlink(p)
            except OSError:
                pass
        try:
            os.rmdir(self.dir)
        except OSError:
            pass


class PtyCase(ChildCase):
    transport = 'pty'

    def __init__(self, workdir, disp='default', cls=None, log='none'):
        ChildCase.__init__(self, workdir, disp, log)
        cls = cls or pexpect.spawn
        self.open_log()
        self.child = cls('/bin/sh', [PEER, self.fifo, disp], timeout=5, echo=False)
        self.attach_log(self.child)
        self.setup(self.child)
        self.attach()

    def setup(self, c):
        c.delayafterclose = c.delayafterterminate = 0.02
        c.ptyproc.delayafterclose = c.ptyproc.delayafterterminate = 0.02
        c.delayafterread = None
        c.delaybeforesend = None
        self.pid = c.pid
        self.fdnum = c.child_fd
        self.fd_ino0 = fd_ino(self.fdnum)

    def settle(self):
        # the master was closed: the kernel hangs up the session (SIGHUP, then SIGCONT)
        if not self.k_fd_closed and fd_ino(self.fdnum) != self.fd_ino0:
            self.k_fd_closed = True
            self.mirror_signal(signal.SIGHUP)
            self.mirror_signal(signal.SIGCONT)

    def observe(self):
        o = {'proc': proc_state(self.pid, os.getpid()), 'fd': self.fd_state()}
        o.update(self.real_fate())
        # descriptors this case holds beyond the harness' own (command FIFO, the intruder's three)
        o['dfd'] = nfds() - self.base_fds - (1 if self.cmd is not None else 0) - (3 if self.intruder is not None else 0) \
            - self.nlog()
        c = self.child
        if c is None:
            o.update(gone=True, term=False, closed=False, fdv='m1', es=-1, ss=-1, sk='none', sv=-1, sc=False, eof=False,
                     pclosed=False)
            return o
        sk, sv = status_pair(c.status)
        o['sc'] = status_core(c.status)
        o.update(gone=False, term=bool(c.terminated), closed=bool(c.closed),
                 fdv='num' if c.child_fd == self.fdnum else 'm1' if c.child_fd == -1 else 'other',
                 es=-1 if c.exitstatus is None else c.exitstatus,
                 ss=-1 if c.signalstatus is None else c.signalstatus, sk=sk, sv=sv,
                 eof=bool(c.flag_eof), pclosed=bool(c.ptyproc.closed))
        return o


class PopenCase(ChildCase):
    """PopenSpawn child (C09 half): pipes, reader thread"""
    transport = 'popen'
    READ_TIMEOUT = 5

    def __init__(self, workdir, disp='default'):
        ChildCase.__init__(self, workdir, disp)
        self.child = pexpect.popen_spawn.PopenSpawn(['/bin/sh', PEER, self.fifo, disp], timeout=5)
        self.child.delayafterread = None
        self.pid = self.child.pid
        self.fdnum = -1
        self.fd_ino0 = None
        self.attach()

    def fd_state(self):
        return 'open'

    def observe(self):
        c = self.child
        sk, sv = status_pair(c.status)
        o = self.real_fate()
        return {'proc': proc_state(self.pid, os.getpid()), 'fd': 'open', 'gone': False, 'fk': o['fk'], 'fv': o['fv'],
                'fc': o['fc'], 'sc': status_core(c.status), 'dfd': -1,
                'term': bool(c.terminated), 'closed': False, 'fdv': 'num',
                'es': -1 if c.exitstatus is None else c.exitstatus,
                'ss': -1 if c.signalstatus is None else c.signalstatus, 'sk': sk, 'sv': sv,
                'eof': bool(c.flag_eof), 'pclosed': False}

    def finish(self):
        """no close() in this class: make the child end, reap it through the object, join the reader"""
        global _current
        c = self.child
        if self.k_state in ('run', 'stop'):
            # (the code under test may already have reaped the child behind our back: that is an
            # observation for the trace, not a reason for the harness to give up)
            try:
                os.kill(self.pid, signal.SIGKILL)
                self._dies(9)
            except (ProcessLookupError, ChildProcessError):
                self.k_state = 'zombie'
        try:
            c.proc.wait()
        except Exception:
            pass
        c._read_thread.join(5)
        for f in (c.proc.stdin, c.proc.stdout):
            try:
                f.close()
            except Exception:
                pass
        self.child = None
        c = None
        self.release()
        gc.collect()
        self.events.append(self.leak_facts())
        return self.events


class FdCase(Case):
    """fdspawn on a pty master / a socket descriptor / a pipe; SocketSpawn on a socketpair or a
    loopback TCP connection.  The 'child' is the peer end held by the harness."""

    def __init__(self, workdir, transport='fd', kind='sockfd', log='none', low=None):
        """low: None, or 0 / 1 / 2 - the wrapped descriptor gets THAT number (the program runs without
        that standard stream, so the next thing it opens lands there).  Only in the helper process
        (lifecases.helper_main), which has closed the number before this case starts."""
        Case.__init__(self, workdir, log)
        self.transport = transport
        self.kind = kind
        self.low = low
        self.keep = []
        self.peer_open = True
        blocker = None
        if low is not None:
            # keep the number out of the way while the peer end etc. are created
            blocker = os.open(os.devnull, os.O_RDONLY)
            if blocker != low:
                os.close(blocker)
                raise HarnessError('descriptor %d is not the lowest free number (got %d)' % (low, blocker))

        def place(fd):
            """the descriptor moves to the low number (dup2 replaces the blocker atomically)"""
            if low is None:
                return fd
            os.dup2(fd, low, inheritable=False)
            os.close(fd)
            return low

        def place_sock(a):
            if low is None:
                return a
            os.dup2(a.fileno(), low, inheritable=False)
            a.close()
            return socket.socket(fileno=low)

        if kind == 'ptyfd':
            import pty, tty
            m, s = pty.openpty()
            tty.setraw(s)
            m = place(m)
            self.fdnum, self.peer_close = m, (lambda: os.close(s))
            self.owner_close = lambda: os.close(m)
        elif kind == 'pipe':
            r, w = os.pipe()
            r = place(r)
            self.fdnum, self.peer_close = r, (lambda: os.close(w))
            self.owner_close = lambda: os.close(r)
        elif kind == 'sockfd':
            a, b = socket.socketpair()
            fd = place(a.detach())        # a bare descriptor: no Python object owns the number
            self.keep = [b]
            self.fdnum, self.peer_close = fd, b.close
            self.owner_close = lambda: os.close(fd)
        elif kind == 'sockpair':
            a, b = socket.socketpair()
            a = place_sock(a)
            self.keep = [a, b]
            self.fdnum, self.peer_close = a.fileno(), b.close
            self.owner_close = a.close
        elif kind == 'tcp':
            srv = socket.socket()
            srv.bind(('127.0.0.1', 0))
            srv.listen(1)
            a = socket.create_connection(srv.getsockname())
            b, _ = srv.accept()
            srv.close()
            a = place_sock(a)
            self.keep = [a, b]
            self.fdnum, self.peer_close = a.fileno(), b.close
            self.owner_close = a.close
        else:
            raise HarnessError(kind)
        if low is not None and self.fdnum != low:
            raise HarnessError('the descriptor did not get number %d' % low)
        self.fd_ino0 = fd_ino(self.fdnum)
        self.open_log()
        if transport == 'fd':
            self.child = pexpect.fdpexpect.fdspawn(self.fdnum, timeout=5)
        else:
            self.child = pexpect.socket_pexpect.SocketSpawn(self.keep[0], timeout=5)
            self.READ_TIMEOUT = 0.01
        self.attach_log(self.child)
        self.child.delayafterread = None
        self.events.append(self.init_event(kind=kind, low=-1 if low is None else low))

    def env(self, action, value):
        if action == 'peerclose':
            self.peer_close()
            self.peer_open = False
        elif action == 'peerreset':
            b = self.keep[-1]
            import struct
            b.setsockopt(socket.SOL_SOCKET, socket.SO_LINGER, struct.pack('ii', 1, 0))
            b.close()
            self.peer_open = False
        elif action == 'logclose':
            self.close_log()
        else:
            raise HarnessError(action)

    def observe(self):
        c = self.child
        o = {'proc': 'run', 'fk': 'none', 'fv': -1, 'fc': False, 'sc': False, 'dfd': -1, 'fd': self.fd_state(), 'es': -1, 'ss': -1, 'sk': 'none', 'sv': -1,
             'term': False, 'pclosed': False}
        if c is None:
            o.update(gone=True, closed=False, fdv='m1', eof=False)
            return o
        o.update(gone=False, closed=bool(c.closed),
                 fdv='num' if c.child_fd == self.fdnum else 'm1' if c.child_fd == -1 else 'other',
                 eof=bool(c.flag_eof), term=bool(c.terminated))
        return o

    def finish(self):
        global _current
        _current = self
        try:
            if not self.gone:
                self.op('Close', 1, final=True)
                self.maybe_reuse()
        finally:
            _current = None
        # the owner of the descriptor (the user = the harness) lets go of what it still holds
        self.child = None
        if self.peer_open:
            try:
                self.peer_close()
            except OSError:
                pass
        leaked = self.fd_state() == 'open'
        if leaked:
            try:
                self.owner_close()
            except OSError:
                pass
        for x in self.keep:
            try:
                x.close()
            except OSError:
                pass
        self.keep = []
        self.release()
        e = self.leak_facts()
        e['proc'] = 'run'
        self.events.append(e)
        return self.events

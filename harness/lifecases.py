"""Case descriptions for the lifecycle checks and their execution in worker processes.

A case is a JSON-able dict
    {'tr': 'pty'|'popen'|'fd'|'socket'|'run', 'kind': ..., 'disp': 'default'|'ignore',
     'items': [['op', name, arg] | ['env', action, value], ...]}
`execute(case)` runs it on a REAL child / descriptor (harness/lifeworld.py) and returns the
recorded events.  Environment actions that are not possible in the state the child is in (an
exit command for a child that is already dead or stopped) are skipped and not logged.
"""
import gc, itertools, os, resource, signal, sys, traceback
from . import lifeworld as L

WORKDIR = None
_ncases = 0


class CaseTimeout(BaseException):
    pass


def _on_alarm(signum, frame):
    raise CaseTimeout()


def init_worker(workdir):
    global WORKDIR
    WORKDIR = workdir
    os.chdir(workdir)
    resource.setrlimit(resource.RLIMIT_CORE, (0, 0))
    L.install()
    signal.signal(signal.SIGALRM, _on_alarm)
    gc.disable()          # deterministic finalisation: reference counting only, explicit collections


def make(case):
    tr = case['tr']
    if tr == 'pty':
        return L.PtyCase(WORKDIR, case.get('disp', 'default'))
    if tr == 'popen':
        return L.PopenCase(WORKDIR, case.get('disp', 'default'))
    if tr in ('fd', 'socket'):
        return L.FdCase(WORKDIR, tr, case['kind'])
    raise ValueError(tr)


def env_possible(w, it):
    if isinstance(w, L.ChildCase):
        if it[1] in ('exit', 'selfkill'):
            return w.k_state == 'run'
        if it[1] == 'sig':
            return w.k_state in ('run', 'stop')
        return False
    if it[1] == 'peerclose':
        return w.peer_open
    if it[1] == 'peerreset':
        return w.peer_open and w.kind == 'tcp'
    return False


def op_possible(w, it):
    """operations the harness refuses to drive (see Lifecycle.tla: Outcomes = {})"""
    if w.transport == 'popen':
        if it[1] == 'Kill':
            return w.k_state != 'zombie' or not w.reaped_seen      # never signal a pid that may be recycled
        if it[1] == 'ExpectEOF':
            return w.k_state == 'zombie'
    return True


def execute(case):
    """-> {'ev': [...]} or {'error': text}"""
    global _ncases
    _ncases += 1
    if _ncases % 50 == 0:
        gc.collect()      # between cases, before the baseline of the next one is taken
    if case['tr'] == 'run':
        return execute_run(case)
    w = None
    signal.alarm(20)
    try:
        w = make(case)
        for it in case['items']:
            if w.gone:
                break
            if it[0] == 'env':
                if not env_possible(w, it):
                    continue
            elif not op_possible(w, it):
                continue
            w.run_ops([tuple(it)])
        ev = w.finish()
        signal.alarm(0)
        return {'ev': ev}
    except BaseException:
        signal.alarm(0)
        err = traceback.format_exc()
        if w is not None:
            try:
                w.abort()
            except BaseException:
                pass
        return {'error': err}
    finally:
        signal.alarm(0)


def strip(ev):
    return [{k: v for k, v in e.items() if k not in ('sys', 'final', 'kind')} for e in ev]


def nontrivial(ev):
    """the trace shows a death being observed, a descriptor being released, or an environment action"""
    prev = None
    for e in ev:
        if e['e'] == 'env' and e['a'] != 'reuse':
            return True
        if e['e'] == 'op':
            cur = (e['term'], e['closed'], e['proc'], e['fd'], e['eof'])
            if prev is not None and cur != prev:
                return True
            prev = cur
    return False


def execute_json(case):
    """execute() with a compact result: ('ok', JSON text of the stripped events, non-trivial?, number
    of logged operations) | ('error', text) - the corpus of the thorough tier does not fit in memory
    as Python objects"""
    import json
    o = execute(case)
    if 'error' in o:
        return ('error', o['error'])
    ev = strip(o['ev'])
    return ('ok', json.dumps(ev, sort_keys=True, separators=(',', ':')), nontrivial(ev),
            sum(1 for e in ev if e['e'] == 'op'))


# ---- run(..., withexitstatus=True): the operations run() performs, observed from inside ----------
def execute_run(case):
    """pexpect.run('/bin/sh -c "exit N"' | 'kill -S $$', withexitstatus=True) with pexpect.run.spawn
    rebound to a subclass that records, as operations of the same trace language, the read to EOF
    and the close() that run() performs."""
    import pexpect
    runmod = sys.modules['pexpect.run']
    fate = tuple(case['fate'])
    holder = {}
    signal.alarm(20)

    class RunCase(L.ChildCase):
        transport = 'pty'

        def __init__(self):
            L.Case.__init__(self, WORKDIR)
            self.disp = 'default'
            self.cmd = None
            self.fifo = None
            self.k_state = 'zombie'          # the child ends by itself; nothing to synchronise with
            self.k_pend = set()
            self.k_fd_closed = True
            self.fate = fate                 # chosen by the harness: the command line says so
            self.events.append({'e': 'init', 'tr': 'pty', 'disp': 'default'})
            self.events.append({'e': 'env', 'a': 'exit' if fate[0] == 'exit' else 'sig', 'v': fate[1]})

        observe = L.PtyCase.observe
        setup = L.PtyCase.setup

        def settle(self):
            pass

        def real_fate(self):
            return {'fk': self.fate[0], 'fv': self.fate[1]}

        def release(self):
            L.Case.release(self)

    w = RunCase()
    real_spawn = runmod.spawn

    class CapSpawn(pexpect.spawn):
        def __init__(self, *a, **k):
            pexpect.spawn.__init__(self, *a, **k)
            w.child = self
            w.setup(self)
            holder['c'] = self

        def expect(self, *a, **k):
            ret = 'None'
            try:
                return pexpect.spawn.expect(self, *a, **k)
            except pexpect.EOF:
                ret = 'EOF'
                raise
            except pexpect.TIMEOUT:
                ret = 'TIMEOUT'
                raise
            finally:
                # the end of the stream was seen because the child is exiting: let it finish (it
                # becomes a zombie, or has been reaped by the code under test already)
                if not w.reaped_seen:
                    try:
                        os.waitid(os.P_PID, w.pid, os.WEXITED | os.WNOWAIT)
                    except OSError:
                        pass
                ev = {'e': 'op', 'op': 'Read', 'arg': 0, 'ret': ret, 'rv': -1, 'final': False, 'exc': ret != 'None'}
                ev.update(w.observe())
                ev['touched'] = False
                ev['sys'] = []
                w.events.append(ev)

        def close(self, force=True):
            ret = 'None'
            try:
                return pexpect.spawn.close(self, force)
            except BaseException as e:
                ret = type(e).__name__
                raise
            finally:
                ev = {'e': 'op', 'op': 'Close', 'arg': int(bool(force)), 'ret': ret, 'rv': -1, 'final': False,
                      'exc': ret != 'None'}
                ev.update(w.observe())
                ev['touched'] = False
                ev['sys'] = []
                w.events.append(ev)
                w.maybe_reuse()

    L._current = w
    runmod.spawn = CapSpawn
    try:
        cmd = "/bin/sh -c 'exit %d'" % fate[1] if fate[0] == 'exit' else "/bin/sh -c 'kill -%d $$'" % fate[1]
        out, es = runmod.run(cmd, withexitstatus=True, timeout=30)
        w.events.append({'e': 'runret', 'rv': -1 if es is None else es, 'isnone': es is None, 'outlen': len(out)})
        holder.clear()
        w.child = None
        w.gone = True
        import gc
        gc.collect()
        w.release()
        w.events.append(w.leak_facts())
        signal.alarm(0)
        return {'ev': w.events}
    except BaseException:
        signal.alarm(0)
        err = traceback.format_exc()
        try:
            w.abort()
        except BaseException:
            pass
        return {'error': err}
    finally:
        signal.alarm(0)
        runmod.spawn = real_spawn
        L._current = None


# ---- enumeration ------------------------------------------------------------------------------------
def pty_ops(killsigs):
    ops = [['op', 'IsAlive', 0], ['op', 'Wait', 0]]
    ops += [['op', 'Kill', g] for g in killsigs]
    ops += [['op', 'Terminate', 0], ['op', 'Terminate', 1], ['op', 'Close', 0], ['op', 'Close', 1],
            ['op', 'SendEof', 0], ['op', 'ExpectEOF', 0], ['op', 'Send', 0], ['op', 'Read', 0],
            ['op', 'WithExit', 0], ['op', 'WithExit', 1], ['op', 'Del', 0]]
    return ops


def fd_ops(tr):
    ops = [['op', 'IsAlive', 0], ['op', 'Close', 1], ['op', 'ExpectEOF', 0], ['op', 'Send', 0], ['op', 'Read', 0],
           ['op', 'WithExit', 0], ['op', 'WithExit', 1], ['op', 'Del', 0]]
    if tr == 'fd':
        ops.append(['op', 'Terminate', 0])
    return ops


def sequences(ops, n):
    """all operation sequences of length n, cut after the first Del (every shorter sequence is a
    prefix of one of them, and every prefix is observed: the trace logs after EACH operation)"""
    out = []
    seen = set()
    for seq in itertools.product(range(len(ops)), repeat=n):
        cut = []
        for i in seq:
            cut.append(i)
            if ops[i][1] == 'Del':
                break
        k = tuple(cut)
        if k not in seen:
            seen.add(k)
            out.append([ops[i] for i in k])
    return out


def with_env(seq, env_item, pos):
    """insert one environment action before operation number `pos` (0-based)"""
    return seq[:pos] + [env_item] + seq[pos:]

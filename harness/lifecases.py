"""Case descriptions for the lifecycle checks and their execution in worker processes.

A case is a JSON-able dict
    {'tr': 'pty'|'popen'|'fd'|'socket'|'run', 'kind': ..., 'disp': 'default'|'ignore'|'core',
     'log': 'none'|'logfile'|'logfile_read'|'logfile_send',      (the caller's log file, open at the start)
     'iso': 'sigign'|'lowfd', 'low': 0|1|2,                      (cases that need a process of their own)
     'items': [['op', name, arg] | ['env', action, value], ...]}
`execute(case)` runs it on a REAL child / descriptor (harness/lifeworld.py) and returns the
recorded events.  Environment actions that are not possible in the state the child is in (an
exit command for a child that is already dead or stopped) are skipped and not logged.
"""
import gc, itertools, json, os, resource, shutil, signal, subprocess, sys, tempfile, traceback
from . import lifeworld as L

WORKDIR = None
_ncases = 0


class CaseTimeout(BaseException):
    pass


def _on_alarm(signum, frame):
    raise CaseTimeout()


def init_worker(workdir):
    global WORKDIR
    WORKDIR = workdir
    os.chdir(workdir)
    # no core files from the harness' own processes; the hard limit stays, so that the children
    # of the "core" disposition can raise their own limit again
    resource.setrlimit(resource.RLIMIT_CORE, (0, resource.getrlimit(resource.RLIMIT_CORE)[1]))
    L.install()
    signal.signal(signal.SIGALRM, _on_alarm)
    gc.disable()          # deterministic finalisation: reference counting only, explicit collections


def make(case):
    tr = case['tr']
    if tr == 'pty':
        return L.PtyCase(WORKDIR, case.get('disp', 'default'), log=case.get('log', 'none'))
    if tr == 'popen':
        return L.PopenCase(WORKDIR, case.get('disp', 'default'))
    if tr in ('fd', 'socket'):
        return L.FdCase(WORKDIR, tr, case['kind'], log=case.get('log', 'none'), low=case.get('low'))
    raise ValueError(tr)


def env_possible(w, it):
    if it[1] == 'logclose':
        return w.nlog() == 1
    if isinstance(w, L.ChildCase):
        if it[1] in ('exit', 'selfkill'):
            return w.k_state == 'run'
        if it[1] == 'sig':
            return w.k_state in ('run', 'stop')
        if it[1] == 'stolen':
            return w.transport == 'pty' and w.k_state == 'zombie' and not w.reaped_seen
        if it[1] == 'waitsteal':
            return w.transport == 'pty' and w.k_state == 'run'
        return False
    if it[1] == 'peerclose':
        return w.peer_open
    if it[1] == 'peerreset':
        return w.peer_open and w.kind == 'tcp'
    return False


def op_possible(w, it):
    """operations the harness refuses to drive (see Lifecycle.tla: Outcomes = {})"""
    if w.transport == 'popen':
        if it[1] == 'Kill':
            return w.k_state != 'zombie' or not w.reaped_seen      # never signal a pid that may be recycled
        if it[1] == 'ExpectEOF':
            return w.k_state == 'zombie'
    return True


def execute(case):
    """-> {'ev': [...]} or {'error': text}"""
    global _ncases
    _ncases += 1
    if _ncases % 50 == 0:
        gc.collect()      # between cases, before the baseline of the next one is taken
    if case['tr'] == 'run':
        return execute_run(case)
    w = None
    signal.alarm(20)
    try:
        w = make(case)
        for it in case['items']:
            if w.gone:
                break
            if it[0] == 'env':
                if not env_possible(w, it):
                    continue
            elif not op_possible(w, it):
                continue
            w.run_ops([tuple(it)])
        ev = w.finish()
        signal.alarm(0)
        return {'ev': ev}
    except BaseException:
        signal.alarm(0)
        err = traceback.format_exc()
        if w is not None:
            try:
                w.abort()
            except BaseException:
                pass
        return {'error': err}
    finally:
        signal.alarm(0)


def strip(ev):
    return [{k: v for k, v in e.items() if k not in ('sys', 'final', 'kind', 'low')} for e in ev]


def nontrivial(ev):
    """the trace shows a death being observed, a descriptor being released, or an environment action"""
    prev = None
    for e in ev:
        if e['e'] == 'env' and e['a'] != 'reuse':
            return True
        if e['e'] == 'op':
            cur = (e['term'], e['closed'], e['proc'], e['fd'], e['eof'])
            if prev is not None and cur != prev:
                return True
            prev = cur
    return False


def execute_json(case):
    """execute() with a compact result: ('ok', JSON text of the stripped events, non-trivial?, number
    of logged operations) | ('error', text) - the corpus of the thorough tier does not fit in memory
    as Python objects"""
    o = execute(case)
    if 'error' in o:
        return ('error', o['error'])
    ev = strip(o['ev'])
    return ('ok', json.dumps(ev, sort_keys=True, separators=(',', ':')), nontrivial(ev),
            sum(1 for e in ev if e['e'] == 'op'))


# ---- cases that need a process of their own ----------------------------------------------------------
# 'sigign': the host program ignores SIGCHLD (process-global: the kernel reaps every child itself and
#           keeps no status) - it must not reach the pool workers, whose oracle is waitid(WNOWAIT);
# 'lowfd':  the wrapped descriptor has the number 0, 1 or 2 - the helper gives up its own standard
#           streams for that, the harness' stay untouched.
def helper_main():
    """python -c 'from harness import lifecases; lifecases.helper_main()' : a request
    {'workdir', 'mode', 'cases'} on stdin, the list of execute_json() results on stdout"""
    import fcntl
    fin = fcntl.fcntl(0, fcntl.F_DUPFD_CLOEXEC, 100)
    fout = fcntl.fcntl(1, fcntl.F_DUPFD_CLOEXEC, 100)
    with os.fdopen(fin, 'rb') as f:
        req = json.loads(f.read().decode())
    try:
        outs = _helper_run(req)
    except BaseException:
        outs = [('error', 'helper: ' + traceback.format_exc())] * len(req['cases'])
    with os.fdopen(fout, 'wb') as f:
        f.write(json.dumps(outs).encode())
    os._exit(0)


def _helper_run(req):
    import fcntl
    null = os.open(os.devnull, os.O_RDWR)
    quiet = os.fdopen(fcntl.fcntl(null, fcntl.F_DUPFD_CLOEXEC, 100), 'w')
    for n in (0, 1, 2):
        os.dup2(null, n)
    os.close(null)
    sys.stdout = sys.stderr = quiet          # nothing of the interpreter's may go to the numbers 0..2
    mode = req['mode']
    if mode == 'sigign':
        signal.signal(signal.SIGCHLD, signal.SIG_IGN)     # before anything is spawned, as a host program would
        L.AUTOREAP = True
    init_worker(req['workdir'])
    outs = []
    for case in req['cases']:
        low = case.get('low') if mode == 'lowfd' else None
        if low is not None:
            os.close(low)                    # this program runs without that standard stream
        try:
            outs.append(execute_json(case))
        finally:
            if low is not None:
                # whatever the case left on the number is let go, the number is occupied again
                fd = os.open(os.devnull, os.O_RDWR)
                if fd != low:
                    os.dup2(fd, low)
                    os.close(fd)
    return outs


def execute_iso_chunk(cases):
    """run cases of ONE isolation mode in a fresh helper process -> list of execute_json() results"""
    mode = cases[0]['iso']
    req = json.dumps({'workdir': WORKDIR, 'mode': mode, 'cases': cases}).encode()
    try:
        p = subprocess.run([sys.executable, '-c', 'from harness import lifecases; lifecases.helper_main()'],
                           input=req, stdout=subprocess.PIPE, stderr=subprocess.PIPE, timeout=30 + 25 * len(cases),
                           cwd=WORKDIR)
        outs = [tuple(o) for o in json.loads(p.stdout.decode())]
        if len(outs) != len(cases):
            raise ValueError('%d results for %d cases' % (len(outs), len(cases)))
        return outs
    except Exception as e:
        err = 'helper process (%s) failed: %r\n%s' % (mode, e, traceback.format_exc())
        try:
            err += '\nstderr: ' + p.stderr.decode(errors='replace')[-2000:] + '\nstdout: ' + p.stdout.decode(errors='replace')[-500:]
        except Exception:
            pass
        return [('error', err)] * len(cases)


def execute_any(case):
    """execute() for every kind of case (isolated ones through their helper process) -> like execute()"""
    if not case.get('iso'):
        return execute(case)
    o = execute_iso_chunk([case])[0]
    if o[0] == 'error':
        return {'error': o[1]}
    return {'ev': json.loads(o[1])}


def execute_any_json(case):
    return execute_iso_chunk([case])[0] if case.get('iso') else execute_json(case)


# ---- run(..., withexitstatus=True): the operations run() performs, observed from inside ----------
def execute_run(case):
    """pexpect.run('/bin/sh -c "exit N"' | 'kill -S $$', withexitstatus=True) with pexpect.run.spawn
    rebound to a subclass that records, as operations of the same trace language, the read to EOF
    and the close() that run() performs."""
    import pexpect
    runmod = sys.modules['pexpect.run']
    fate = tuple(case['fate'])
    core = bool(case.get('core'))
    holder = {}
    signal.alarm(20)

    class RunCase(L.ChildCase):
        transport = 'pty'

        def __init__(self):
            L.Case.__init__(self, WORKDIR)
            self.disp = 'default'
            self.cmd = None
            self.fifo = None
            self.k_state = 'zombie'          # the child ends by itself; nothing to synchronise with
            self.k_pend = set()
            self.k_fd_closed = True
            self.fate = fate                 # chosen by the harness: the command line says so
            # the core flag: as the kernel reports it with waitid(WNOWAIT) at the end of the stream (see
            # CapSpawn.expect); should pexpect have reaped the child before that, what the probe of
            # this kernel showed for such a child (the case is only built when it dumps core)
            self.fate_core = core and fate[0] == 'sig' and fate[1] in L.CORE_SIGNALS
            self.dir = tempfile.mkdtemp(dir=WORKDIR) if core else None
            self.events.append(self.init_event(disp='core' if core else 'default'))
            self.events.append({'e': 'env', 'a': 'exit' if fate[0] == 'exit' else 'sig', 'v': fate[1]})

        observe = L.PtyCase.observe
        setup = L.PtyCase.setup

        def settle(self):
            pass

        def real_fate(self):
            return {'fk': self.fate[0], 'fv': self.fate[1], 'fc': self.fate_core}

        def release(self):
            L.Case.release(self)
            if self.dir is not None:
                shutil.rmtree(self.dir, ignore_errors=True)

    w = RunCase()
    real_spawn = runmod.spawn

    class CapSpawn(pexpect.spawn):
        def __init__(self, *a, **k):
            pexpect.spawn.__init__(self, *a, **k)
            w.child = self
            w.setup(self)
            holder['c'] = self

        def expect(self, *a, **k):
            ret = 'None'
            try:
                return pexpect.spawn.expect(self, *a, **k)
            except pexpect.EOF:
                ret = 'EOF'
                raise
            except pexpect.TIMEOUT:
                ret = 'TIMEOUT'
                raise
            finally:
                # the end of the stream was seen because the child is exiting: let it finish (it
                # becomes a zombie, or has been reaped by the code under test already)
                if not w.reaped_seen:
                    try:
                        si = os.waitid(os.P_PID, w.pid, os.WEXITED | os.WNOWAIT)
                        if si is not None:
                            w.fate_core = si.si_code == os.CLD_DUMPED
                    except OSError:
                        pass
                ev = {'e': 'op', 'op': 'Read', 'arg': 0, 'ret': ret, 'rv': -1, 'final': False, 'exc': ret != 'None'}
                ev.update(w.observe())
                ev['touched'] = False
                ev['sys'] = []
                w.events.append(ev)

        def close(self, force=True):
            ret = 'None'
            try:
                return pexpect.spawn.close(self, force)
            except BaseException as e:
                ret = type(e).__name__
                raise
            finally:
                ev = {'e': 'op', 'op': 'Close', 'arg': int(bool(force)), 'ret': ret, 'rv': -1, 'final': False,
                      'exc': ret != 'None'}
                ev.update(w.observe())
                ev['touched'] = False
                ev['sys'] = []
                w.events.append(ev)
                w.maybe_reuse()

    L._current = w
    runmod.spawn = CapSpawn
    try:
        pre = 'ulimit -c unlimited 2>/dev/null || ulimit -c $(ulimit -H -c); cd %s; ' % w.dir if core else ''
        cmd = "/bin/sh -c '%sexit %d'" % (pre, fate[1]) if fate[0] == 'exit' else "/bin/sh -c '%skill -%d $$'" % (pre, fate[1])
        out, es = runmod.run(cmd, withexitstatus=True, timeout=30)
        w.events.append({'e': 'runret', 'rv': -1 if es is None else es, 'isnone': es is None, 'outlen': len(out)})
        holder.clear()
        w.child = None
        w.gone = True
        import gc
        gc.collect()
        w.release()
        w.events.append(w.leak_facts())
        signal.alarm(0)
        return {'ev': w.events}
    except BaseException:
        signal.alarm(0)
        err = traceback.format_exc()
        try:
            w.abort()
        except BaseException:
            pass
        return {'error': err}
    finally:
        signal.alarm(0)
        runmod.spawn = real_spawn
        L._current = None


# ---- enumeration ------------------------------------------------------------------------------------
def pty_ops(killsigs):
    ops = [['op', 'IsAlive', 0], ['op', 'Wait', 0]]
    ops += [['op', 'Kill', g] for g in killsigs]
    ops += [['op', 'Terminate', 0], ['op', 'Terminate', 1], ['op', 'Close', 0], ['op', 'Close', 1],
            ['op', 'SendEof', 0], ['op', 'ExpectEOF', 0], ['op', 'Send', 0], ['op', 'Read', 0],
            ['op', 'WithExit', 0], ['op', 'WithExit', 1], ['op', 'Del', 0]]
    return ops


def fd_ops(tr):
    ops = [['op', 'IsAlive', 0], ['op', 'Close', 1], ['op', 'ExpectEOF', 0], ['op', 'Send', 0], ['op', 'Read', 0],
           ['op', 'WithExit', 0], ['op', 'WithExit', 1], ['op', 'Del', 0]]
    if tr == 'fd':
        ops.append(['op', 'Terminate', 0])
    return ops


def sequences(ops, n):
    """all operation sequences of length n, cut after the first Del (every shorter sequence is a
    prefix of one of them, and every prefix is observed: the trace logs after EACH operation)"""
    out = []
    seen = set()
    for seq in itertools.product(range(len(ops)), repeat=n):
        cut = []
        for i in seq:
            cut.append(i)
            if ops[i][1] == 'Del':
                break
        k = tuple(cut)
        if k not in seen:
            seen.add(k)
            out.append([ops[i] for i in k])
    return out


def with_env(seq, env_item, pos):
    """insert one environment action before operation number `pos` (0-based)"""
    return seq[:pos] + [env_item] + seq[pos:]

"""A call into the code under test that does not come back is a finding, not a reason for the check to hang.

`wall_budget(seconds)`: the body runs in the main thread of the (worker) process; when it is still running after
`seconds` of wall-clock time a watchdog thread sends SIGUSR1 to that thread and the handler raises `Hung` there - out
of a spinning Python loop as well as out of a blocking system call (select, read, waitpid, sleep ...).
SIGALRM is left alone (some cases use the interval timer themselves).

`ReadBound(child, limit)`: counts the read_nonblocking calls of one call of the expect family (virtual-clock runs:
a loop that never ends takes no wall-clock time worth waiting for); raises `Hung` at the limit.

`Hung` derives from BaseException: nothing in pexpect or in the harness swallows it by accident (pexpect's
`except: ... raise` clauses re-raise it).
"""
import signal, threading
from contextlib import contextmanager


class Hung(BaseException):
    pass


@contextmanager
def wall_budget(seconds):
    state = {'armed': True, 'fired': False}
    main = threading.get_ident()

    def handler(signum, frame):
        if state['armed']:
            state['armed'] = False
            state['fired'] = True
            raise Hung('no return after %.0f s of wall-clock time' % seconds)

    def fire():
        if state['armed']:
            try:
                signal.pthread_kill(main, signal.SIGUSR1)
            except Exception:
                pass
    old = signal.signal(signal.SIGUSR1, handler)
    t = threading.Timer(seconds, fire)
    t.daemon = True
    t.start()
    try:
        yield state
    finally:
        state['armed'] = False
        t.cancel()
        signal.signal(signal.SIGUSR1, old)


class ReadBound(object):
    """wraps child.read_nonblocking: at most `limit` calls between two reset()s"""

    def __init__(self, child, limit):
        self.n = 0
        self.limit = limit
        orig = child.read_nonblocking
        bound = self

        def rn(*a, **k):
            bound.n += 1
            if bound.n > bound.limit:
                raise Hung('%d read_nonblocking calls in one call of the expect family' % bound.n)
            return orig(*a, **k)
        child.read_nonblocking = rn

    def reset(self):
        self.n = 0


CASE_BUDGET = 240      # seconds of wall-clock time for one whole case in a worker (world construction, peer
                       # synchronisation, all its calls, clean-up): normally well under a second


def pmap(pool, fn, jobs, chunksize=1, timeout=1500):
    """pool.map that cannot wait for ever (a worker that died takes its task with it): TimeoutError -> machinery failure"""
    import multiprocessing
    from . import tlc
    try:
        return pool.map_async(fn, jobs, chunksize=chunksize).get(timeout=timeout)
    except multiprocessing.TimeoutError:
        raise tlc.TLCError('%s: the worker pool did not finish %d cases within %d s' % (getattr(fn, '__name__', fn), len(jobs), timeout))

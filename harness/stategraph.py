"""Parse TLC's `-dump dot,actionlabels` state graph and TLA+ values printed by TLC."""
import re


class TLAParseError(Exception):
    pass


def parse_value(s):
    """TLA+ value text -> Python: ints, booleans, strings, <<..>> -> list, {..} -> frozenset-like
    list tagged ('set', [...]), [a |-> 1, ..] -> dict, (k :> v @@ ..) -> dict."""
    v, i = _val(s, _ws(s, 0))
    i = _ws(s, i)
    if i != len(s):
        raise TLAParseError('trailing text at %d in %r' % (i, s[:200]))
    return v


def _ws(s, i):
    while i < len(s) and s[i] in ' \t\r\n':
        i += 1
    return i


def _val(s, i):
    c = s[i]
    if c == '"':
        j = i + 1
        out = []
        while s[j] != '"':
            if s[j] == '\\':
                j += 1
            out.append(s[j])
            j += 1
        return ''.join(out), j + 1
    if c == '<' and s[i + 1] == '<':
        i = _ws(s, i + 2)
        out = []
        while not s.startswith('>>', i):
            v, i = _val(s, i)
            out.append(v)
            i = _ws(s, i)
            if s[i] == ',':
                i = _ws(s, i + 1)
        return out, i + 2
    if c == '{':
        i = _ws(s, i + 1)
        out = []
        while s[i] != '}':
            v, i = _val(s, i)
            out.append(v)
            i = _ws(s, i)
            if s[i] == ',':
                i = _ws(s, i + 1)
        return ('set', out), i + 1
    if c == '[':
        i = _ws(s, i + 1)
        d = {}
        while s[i] != ']':
            m = re.compile(r'[A-Za-z_][A-Za-z0-9_]*').match(s, i)
            k = m.group(0)
            i = _ws(s, m.end())
            assert s.startswith('|->', i), s[i:i + 20]
            v, i = _val(s, _ws(s, i + 3))
            d[k] = v
            i = _ws(s, i)
            if s[i] == ',':
                i = _ws(s, i + 1)
        return d, i + 1
    if c == '(':
        # function displayed as (k1 :> v1 @@ k2 :> v2)
        i = _ws(s, i + 1)
        d = {}
        while s[i] != ')':
            k, i = _val(s, i)
            i = _ws(s, i)
            assert s.startswith(':>', i), s[i:i + 20]
            v, i = _val(s, _ws(s, i + 2))
            d[k if not isinstance(k, list) else tuple(k)] = v
            i = _ws(s, i)
            if s.startswith('@@', i):
                i = _ws(s, i + 2)
        return d, i + 1
    m = re.compile(r'-?\d+').match(s, i)
    if m:
        return int(m.group(0)), m.end()
    if s.startswith('TRUE', i):
        return True, i + 4
    if s.startswith('FALSE', i):
        return False, i + 5
    m = re.compile(r'[A-Za-z_][A-Za-z0-9_]*').match(s, i)      # model value
    if m:
        return m.group(0), m.end()
    raise TLAParseError('cannot parse at %d: %r' % (i, s[i:i + 40]))


def parse_state(txt):
    """'/\\ a = 1\n/\\ b = <<>>' -> {'a': 1, 'b': []}"""
    st = {}
    # split on conjuncts at line starts
    parts = re.split(r'(?:^|\n)\s*/\\ ', txt)
    for p in parts:
        p = p.strip()
        if not p:
            continue
        k, _, v = p.partition(' = ')
        st[k.strip()] = parse_value(v.strip())
    return st


_NODE = re.compile(r'^(-?\d+) \[label="((?:[^"\\]|\\.)*)"')
_EDGE = re.compile(r'^(-?\d+) -> (-?\d+) \[label="((?:[^"\\]|\\.)*)"')


def _unesc(s):
    return s.replace('\\n', '\n').replace('\\"', '"').replace('\\\\', '\\')


class Graph(object):
    def __init__(self, path, parse_states=True):
        self.nodes = {}     # id -> state dict (or raw text)
        self.edges = {}     # id -> [(label, dst)]
        self.init = []
        with open(path) as f:
            for line in f:
                m = _EDGE.match(line)
                if m:
                    self.edges.setdefault(m.group(1), []).append((_unesc(m.group(3)), m.group(2)))
                    continue
                m = _NODE.match(line)
                if m:
                    nid = m.group(1)
                    if nid not in self.nodes:
                        txt = _unesc(m.group(2))
                        self.nodes[nid] = parse_state(txt) if parse_states else txt
                    if 'style = filled' in line:
                        self.init.append(nid)
        for n in self.nodes:
            self.edges.setdefault(n, [])

    def n_edges(self):
        return sum(len(v) for v in self.edges.values())


def parse_action(label):
    """'PeerWrite(2)' -> ('PeerWrite', [2]);  'Poll0' -> ('Poll0', [])"""
    m = re.match(r'^(\w+)(?:\((.*)\))?$', label.strip(), re.S)
    name, args = m.group(1), m.group(2)
    if args is None:
        return name, []
    return name, parse_value('<<' + args + '>>')

"""Validate a recorded trace against the state graph TLC computed for a model
(`-dump dot,actionlabels`): the trace is accepted iff it is the label/observation projection of
some path of the graph.  Cheap (set-of-states walk) and faithful: the graph *is* TLC's
enumeration of the specification's behaviours.
"""
from .stategraph import parse_action


class Matcher(object):
    def __init__(self, graph, kind_actions, project, peer_prefix='Peer'):
        """kind_actions: {'read': {'Read1', ...}, ...}; project(state) -> dict comparable with the
        observation logged at a reader step"""
        self.g = graph
        self.kind_actions = kind_actions
        self.project = project
        self.parsed = {}
        for n, es in graph.edges.items():
            self.parsed[n] = [(parse_action(l), l, d) for l, d in es]

    def succ(self, states, pred):
        out = set()
        for n in states:
            for (name, args), label, d in self.parsed[n]:
                if pred(name, args, label, n, d):
                    out.add(d)
        return out

    def match(self, events, call_label, ret_ok, chain=('Wait',)):
        """returns (ok, index of the first event that cannot be matched, states before it)"""
        S = set(self.g.init)
        for i, ev in enumerate(events):
            e = ev['e']
            if e == 'peer':
                T = self.succ(S, lambda name, args, label, n, d: label == ev['a'])
            elif e == 'call':
                lab = call_label(ev)
                T = self.succ(S, lambda name, args, label, n, d: label == lab)
            elif e == 'step':
                names = self.kind_actions[ev['k']]
                obs = {k: v for k, v in ev.items() if k in self.obs_keys}

                def ok(name, args, label, n, d, names=names, obs=obs, ev=ev):
                    if name not in names:
                        return False
                    if ev['k'] in ('read', 'tread') and args and args[0] != ev['n']:
                        return False
                    st = self.project(self.g.nodes[d])
                    return all(st.get(k) == v for k, v in obs.items())
                T = self.succ(S, ok)
                # an expiring timed wait is two steps of the model (time passes, then the re-check)
                if ev['k'] in self.chain_kinds:
                    T2 = self.succ(T, ok)
                    T = T | T2
            elif e == 'ret':
                # steps of the model that are not system calls (pure computation) may precede the return
                C = set(S)
                frontier = list(S)
                while frontier and self.silent:
                    n = frontier.pop()
                    for (name, args), label, d in self.parsed[n]:
                        if name in self.silent and d not in C:
                            C.add(d)
                            frontier.append(d)
                T = set(n for n in C if ret_ok(self.g.nodes[n], ev))
            else:
                raise ValueError(e)
            if not T:
                return False, i, S
            S = T
        return True, len(events), S

    silent = ()
    obs_keys = ('lo', 'flagEof', 'terminated')
    chain_kinds = ('selectT',)

"""Scripted transport: a SpawnBase subclass whose read_nonblocking follows a script.

Script items:
  ('data', b'...')   bytes that become readable (delivered <= size per read, the rest stays)
  ('empty',)         a read that returns the empty string (piped-subprocess style)
  ('timeout',)       read_nonblocking raises TIMEOUT (nothing readable before its deadline)
  ('eof',)           read_nonblocking raises EOF and sets flag_eof (and keeps doing so)
  ('error', exc)     read_nonblocking raises exc
When the script is exhausted read_nonblocking raises TIMEOUT (a silent peer), or EOF once an
'eof' item has been consumed.

Data goes through the instance decoder and _log() exactly as SpawnBase.read_nonblocking does,
so matching, logging and decoding see what a real transport would give them.  Every read is
appended to `self.trace` (a list of event dicts) by the recorder in expect_driver.
"""
import pexpect
from pexpect.spawnbase import SpawnBase
from pexpect.exceptions import EOF, TIMEOUT


class Scripted(SpawnBase):
    def __init__(self, script, timeout=30, maxread=2000, searchwindowsize=None, logfile=None,
                 encoding=None, codec_errors='strict', clock=None, read_cost=0.0):
        super(Scripted, self).__init__(timeout=timeout, maxread=maxread, searchwindowsize=searchwindowsize,
                                       logfile=logfile, encoding=encoding, codec_errors=codec_errors)
        self.script = list(script)
        self.closed = False
        self.terminated = False
        self.child_fd = -1
        self.delayafterread = None
        self.reads = []          # what each read_nonblocking call did: ('data', text) | ('timeout',) ...
        self.clock = clock
        self.read_cost = read_cost
        self.sent = []
        self.name = '<scripted>'

    def __str__(self):
        return '<Scripted transport, %d script items left>' % len(self.script)

    def read_nonblocking(self, size=1, timeout=-1):
        if self.clock is not None and self.read_cost:
            self.clock.advance(self.read_cost)
        if self.flag_eof and not self.script:
            self.reads.append(('eof',))
            raise EOF('End Of File (EOF). Scripted transport.')
        if not self.script:
            self.reads.append(('timeout',))
            raise TIMEOUT('Timeout exceeded.')
        item = self.script[0]
        kind = item[0]
        if kind == 'data':
            data = item[1]
            if len(data) > size:
                self.script[0] = ('data', data[size:])
                data = data[:size]
            else:
                self.script.pop(0)
            s = self._decoder.decode(data, final=False)
            self._log(s, 'read')
            self.reads.append(('data', s))
            return s
        self.script.pop(0)
        if kind == 'empty':
            s = self._decoder.decode(b'', final=False)
            self.reads.append(('data', s))
            return s
        if kind == 'timeout':
            self.reads.append(('timeout',))
            raise TIMEOUT('Timeout exceeded.')
        if kind == 'eof':
            self.flag_eof = True
            self.reads.append(('eof',))
            raise EOF('End Of File (EOF). Scripted transport.')
        if kind == 'error':
            self.reads.append(('error', type(item[1]).__name__))
            raise item[1]
        raise AssertionError('bad script item %r' % (item,))

    # minimal send side so that run()/REPLWrapper/pxssh can talk to a scripted peer
    def send(self, s):
        s = self._coerce_send_string(s)
        self._log(s, 'send')
        b = self._encoder.encode(s, final=False)
        self.sent.append(b)
        if hasattr(self, 'on_send'):
            self.on_send(b)
        return len(b)

    def sendline(self, s=''):
        s = self._coerce_send_string(s)
        return self.send(s + self.linesep)

    def write(self, s):
        self.send(s)

    def isalive(self):
        return not self.flag_eof

    def close(self, force=True):
        self.closed = True

"""Driver for C14: runs histories of blocking and awaited expect-family calls on ONE object whose
data source is a timeline of arrivals (virtual time), through the real expect_async /
PatternWaiter on the virtual asyncio loop (harness/vloop.py) and through the real blocking
expect_loop; records traces in the vocabulary of spec/ExpectTrace.tla.
"""
import asyncio, random, re
import pexpect
from pexpect import expect as expect_mod
import pexpect._async as _async_mod
from . import pat as P
from .scripted import Scripted
from .recorder import Recorder, install, tmo_class, _marker_name, _match_ok
from .vloop import VirtualLoop
from pexpect.exceptions import EOF, TIMEOUT


class LoopClock(object):
    """the `time` module as seen by pexpect.expect: the virtual loop's clock"""

    def __init__(self, world):
        self.w = world

    def time(self):
        return self.w.loop._vnow

    def sleep(self, dt):
        if dt and dt > 0:
            self.w.advance_to(self.w.loop._vnow + dt)

    def __getattr__(self, name):
        import time
        return getattr(time, name)


class TimelineSpawn(Scripted):
    """Scripted-like object whose bytes come from a timeline of arrivals shared by the blocking
    path (read_nonblocking below) and the asyncio path (FakeReadTransport)."""

    def __init__(self, world, **kw):
        Scripted.__init__(self, [], **kw)
        self.world = world
        self._verif_kernel = world.kernel          # picked up by VirtualLoop.connect_read_pipe

    def read_nonblocking(self, size=1, timeout=-1):
        w = self.world
        if timeout == -1:
            timeout = self.timeout
        k = w.kernel_state()
        if not k['data'] and not k['eof']:
            # wait (virtually) for the next arrival, up to the timeout
            deadline = None if timeout is None else w.loop._vnow + timeout
            nxt = w.next_arrival()
            if nxt is None or (deadline is not None and nxt > deadline):
                if deadline is None:
                    raise RuntimeError('blocking read with timeout None and nothing ever arriving')
                w.advance_to(deadline)
                self.reads.append(('timeout',))
                raise TIMEOUT('Timeout exceeded.')
            w.advance_to(nxt)
            k = w.kernel_state()
        if k['data']:
            data = w.take(size)
            s = self._decoder.decode(data, final=False)
            self._log(s, 'read')
            self.reads.append(('data', s))
            return s
        self.flag_eof = True
        self.reads.append(('eof',))
        raise EOF('End Of File (EOF). Timeline.')


class AsyncWorld(object):
    def __init__(self, mapping, arrivals, maxread=2000):
        """arrivals: [(t, bytes | None)] relative to the start; None = end of stream"""
        install()
        self.loop = VirtualLoop()
        self.t0 = self.loop._vnow
        self.arrivals = sorted([(self.t0 + t, d) for t, d in arrivals], key=lambda x: x[0])
        self.kernel = {'data': b'', 'eof': False}
        self.mapping = mapping
        enc = mapping.encoding if mapping.unicode_mode else None
        self.sp = TimelineSpawn(self, timeout=100, maxread=maxread, encoding=enc)
        self.rec = Recorder(self.sp, mapping)
        self.clock = LoopClock(self)
        self._saved_time = expect_mod.time
        expect_mod.time = self.clock
        # the loop's selector advances time: make it deliver arrivals on the way
        sel = self.loop._selector
        world = self

        def select(timeout=None):
            world.deliver_due()
            if any(t.readable() for t in world.loop.transports):
                for t in world.loop.transports:
                    t.poll()
                return []
            nxt = world.next_arrival()
            now = world.loop._vnow
            if timeout is None:
                if nxt is None:
                    raise RuntimeError('virtual loop would block for ever')
                world.advance_to(nxt)
            elif timeout > 0:
                world.advance_to(min(now + timeout, nxt) if nxt is not None else now + timeout)
            else:
                world.deliver_due()
            for t in world.loop.transports:
                t.poll()
            return []
        sel.select = select
        # record what the protocol is given: wrap _log (called once per read on both paths)
        self.read_log = []
        orig_log = self.sp._log

        def _log(s, direction):
            if direction == 'read':
                pw = self.sp.async_pw_transport[0] if self.sp.async_pw_transport else None
                late = bool(self.in_async and pw is not None and pw.fut.done())
                self.read_log.append((s, late))
            return orig_log(s, direction)
        self.sp._log = _log
        self.in_async = False
        self._orig_expect_async = _async_mod.expect_async
        self.calls_out = []

    # ---- timeline ---------------------------------------------------------------------
    def transport(self):
        return getattr(self.sp, '_verif_transport', None)

    def kernel_state(self):
        tr = self.transport()
        if tr is not None:
            return {'data': tr.kernel, 'eof': tr.eof_pending}
        return self.kernel

    def take(self, size):
        tr = self.transport()
        if tr is not None:
            d, tr.kernel = tr.kernel[:size], tr.kernel[size:]
        else:
            d, self.kernel['data'] = self.kernel['data'][:size], self.kernel['data'][size:]
        return d

    def next_arrival(self):
        return self.arrivals[0][0] if self.arrivals else None

    def deliver_due(self):
        tr = self.transport()
        while self.arrivals and self.arrivals[0][0] <= self.loop._vnow + 1e-9:
            t, d = self.arrivals.pop(0)
            if tr is not None:
                if d is None:
                    tr.arrive_eof()
                else:
                    tr.arrive(d)
            else:
                if d is None:
                    self.kernel['eof'] = True
                else:
                    self.kernel['data'] += d

    def advance_to(self, t):
        # step through the arrivals one by one so that each becomes its own delivery
        while self.arrivals and self.arrivals[0][0] <= t + 1e-9:
            self.loop._vnow = max(self.loop._vnow, self.arrivals[0][0])
            self.deliver_due()
            if self.in_async:
                return           # let the loop run the reader callback before time moves on
        self.loop._vnow = max(self.loop._vnow, t)

    def close(self):
        expect_mod.time = self._saved_time
        _async_mod.expect_async = self._orig_expect_async
        try:
            self.loop.close()
        except Exception:
            pass

    # ---- calls --------------------------------------------------------------------------
    def _emit_reads(self):
        for s, late in self.read_log:
            self.rec.emit(e='late' if late else 'read', d=self.rec.ab(s))
        self.read_log = []

    def _emit_ret(self, exp, raised, idx):
        sp, rec = self.sp, self.rec
        after = sp.after
        if raised not in ('', 'EOF', 'TIMEOUT'):
            kind = 'error'
        elif after is EOF:
            kind = 'eof'
        elif after is TIMEOUT:
            kind = 'timeout'
        elif after is None:
            kind = 'error'
        else:
            kind = 'match'
        m = sp.match
        mk = _marker_name(m) if (m is EOF or m is TIMEOUT or m is None) else ('re' if hasattr(m, 'span') else 'str')
        mok = True
        if kind == 'match':
            try:
                mok = bool(_match_ok(sp, exp, exp.searcher, rec))
            except Exception:
                mok = False
        st = sp.string_type
        rec.emit(e='ret', kind=kind, idx=idx if raised == '' else -1, raised=raised,
                 before=rec.ab(sp.before if sp.before is not None else st()),
                 after=rec.ab(after) if kind == 'match' else [], afterk=_marker_name(after), buffer=rec.ab(sp.buffer),
                 mi=sp.match_index if sp.match_index is not None else -1, mk=mk, mok=mok,
                 tok=bool(isinstance(sp.before, st) and isinstance(sp.buffer, st)), t=round(self.loop._vnow - self.t0, 6))

    async def _recorded_expect_async(self, expecter, timeout=None):
        sp, rec = self.sp, self.rec
        pats = rec.annot['pats'] if rec.annot else None
        k = self.kernel_state()
        ready = len(k['data'].decode(self.mapping.encoding if self.mapping.unicode_mode else 'latin-1', 'ignore'))
        W = expecter.searchwindowsize or 0
        if rec.annot and 'W' in rec.annot:
            W = rec.annot['W']           # the window the caller asked for on this call
        rec.emit(e='call', pats=pats, W=W, tmo=tmo_class(timeout),
                 exact=hasattr(expecter.searcher, '_strings'), mode='async', ready=ready, t=round(self.loop._vnow - self.t0, 6))
        self.read_log = []
        self.in_async = True
        tr0 = self.transport()
        eof0 = bool(tr0 and tr0.eof_delivered)
        raised, idx = '', -1
        box = None
        try:
            idx = await self._orig_expect_async(expecter, timeout)
        except EOF as e:
            raised, box = 'EOF', e
        except TIMEOUT as e:
            raised, box = 'TIMEOUT', e
        except BaseException as e:
            raised, box = type(e).__name__, e
        finally:
            self.in_async = False
        self._emit_reads()
        tr1 = self.transport()
        if tr1 is not None and tr1.eof_delivered and not eof0:
            rec.emit(e='reof')
        self._emit_ret(expecter, raised, idx)
        if box is not None:
            raise box
        return idx

    def run(self, calls):
        """calls: list of dicts like expect_driver's, plus 'mode': 'sync' | 'async' and optional
        'at': virtual time at which the call starts"""
        _async_mod.expect_async = self._recorded_expect_async
        sp, m, rec = self.sp, self.mapping, self.rec

        async def main():
            for c in calls:
                if getattr(self, 'dead', False):
                    return
                if 'at' in c and c.get('idle') == 'yield':
                    # the caller does other work on the loop until then ("poll, do other work, poll again"): the loop
                    # runs while output (and the end of the stream) arrives with no call outstanding
                    target = max(self.loop._vnow, self.t0 + c['at'])
                    while self.arrivals and self.arrivals[0][0] <= target + 1e-9:
                        dt = self.arrivals[0][0] - self.loop._vnow
                        if dt > 0:
                            await asyncio.sleep(dt)
                        self.deliver_due()
                        for _ in range(3):
                            await asyncio.sleep(0)
                    if target > self.loop._vnow:
                        await asyncio.sleep(target - self.loop._vnow)
                elif 'at' in c:
                    self.advance_to(max(self.loop._vnow, self.t0 + c['at']))
                else:
                    self.deliver_due()
                pats = c['pats']
                exact = c['fn'] == 'expect_exact'
                rec.annot = {'pats': pats, 'W': c.get('W', 0) or 0}
                conc = [m.concrete(p, exact) for p in pats]
                W = c.get('W', 0) or None
                targ = {'pos': 3.0, 'zero': 0, 'none': None, 'neg': -7, 'default': -1}[c.get('tmo', 'pos')]
                sp.timeout = 3.0
                fn = getattr(sp, c['fn'] if c['fn'] != 'expect_list' else 'expect_list')
                if c['fn'] == 'expect_list':
                    conc = sp.compile_pattern_list(conc)
                try:
                    if c.get('mode') == 'async':
                        await fn(conc, timeout=targ, searchwindowsize=W if W else -1, async_=True)
                    else:
                        n0 = len(rec.events)
                        fn(conc, timeout=targ, searchwindowsize=W if W else -1)
                except (EOF, TIMEOUT):
                    pass
                except Exception as e:
                    if getattr(self, 'dead', False):
                        return
                    if not rec.events or rec.events[-1].get('e') != 'ret':
                        rec.emit(e='ret', kind='error', idx=-1, raised=type(e).__name__, before=[], after=[],
                                 afterk='None', buffer=[], mi=-1, mk='None', mok=True, tok=True)
                if sp.flag_eof:
                    break                # parity is claimed up to and including the first EOF
        coro = main()
        try:
            self.loop.run_until_complete(coro)
        finally:
            # a history that is abandoned (the loop would block for ever) leaves main() suspended inside a call: it must not
            # run on - into the patches of the next world - when it is collected
            self.dead = True
            self.close()
            try:
                coro.close()
            except BaseException:
                pass
        # sync calls were recorded by the expect_loop wrapper; their reads were logged through _log as well
        return rec.events

"""Regenerates /verif/MANIFEST.json from one table so that it is always valid and current.
Run: /venv/bin/python -m harness.manifest_gen"""
import json, os

VERIF = os.path.dirname(os.path.dirname(os.path.abspath(__file__)))

# id -> (category, technique, level text, level note, design ref, engine)
CLAIMED = {
    'C01': ('model_checking',
            'TLA+ contract ExpectAbs + implementation-shaped ExpectImpl checked by TLC (invariants + refinement); trace validation of recorded executions of the real expect family against ExpectTrace',
            'TLC proves Conservation / TimeoutConsumesNothing / SetBufferReplaces for every stream, chunking, call history and window in the bound on the model of expect.py as written and that it refines the naive contract; thousands of histories executed on the real code (scripted transport) are validated event by event against the contract by TLC',
            'scripted transport replaces the kernel; bounds of the cfg; Pat.tla semantics self-tested against re', '5 C01', 'expect'),
    'C02': ('model_checking',
            'TLC invariants Genuine/Leftmost/LowestIndex on ExpectImpl + TLC trace validation (ExpectTrace) of real executions, independent re cross-check of spawn.match',
            'same corpus as C01; the clauses index / after / before-ends-at-occurrence / match_index / match-object are decided per recorded call',
            'as C01; the match-object cross-check trusts Python re for match() at a given position', '5 C02', 'expect'),
    'C03': ('model_checking',
            'TLC invariant NoMissed + refinement ExpectImpl => ExpectAbs (naive re-search); TLC trace validation rejects a call that returns after more or fewer reads than the contract',
            'exhaustive in the bound for the incremental exact-string tail search, look-back trimming and window rebuild; real executions validated against the naive contract read by read',
            'as C01', '5 C03', 'expect'),
    'C04': ('model_checking',
            'TLC invariants MarkerIdx/EofClears + refinement; TLC trace validation of EOF/TIMEOUT outcome clauses on every entry point',
            'outcome table (index if listed else exact exception class, before = all pending, after = marker class, pending cleared after EOF, EOF sticky) decided on every recorded call',
            'as C01; real transports are added by the transport checks', '5 C04', 'expect'),
    'C05': ('model_checking',
            'TLA+ model Deadline (expect_loop remaining-time arithmetic, -1/None/0 conventions per entry point, waitnoecho) checked by TLC for every arrival schedule; timed executions of the real entry points on real transports under a virtual clock validated by TLC against DeadlineTrace; read_nonblocking-level interleavings via PtyRead/FdRead/SockRead replays',
            'TLC proves Bounded / NotEarly / NoneNeverTimesOut / ZeroStillLooks / MinusOneIsDefault / MatchBeatsTimeout on the model and evaluates the same clauses on thousands of real timed executions (pty, fd, socket, popen; expect, expect_exact, expect_list, expect_loop, read_nonblocking, waitnoecho), durations measured exactly on the virtual clock',
            'virtual time: timed waits and sleeps of the code advance a clock owned by the harness; rounding to ticks; EINTR retry is Python\'s', '5 C05', 'deadline'),
    'C06': ('model_checking',
            'TLA+ models PtyRead/FdRead/SockRead of read_nonblocking (one action per system call) x peer x process table checked by TLC in every interleaving; every single-call path of the TLC state graph replayed on the real transport by system-call interposition; recorded traces matched against the TLC state graph',
            'TLC proves prefix-in-order / EOF-only-when-drained / at-most-size / socket-timeout-restored for all interleavings in the bound; the same interleavings are forced on real pty children, pipes, pty and socket descriptors and socketpairs between the real system calls of the real code and the bytes compared',
            'real Linux kernel semantics observed, not modelled beyond readiness/short reads; units are single bytes; PopenSpawn see notes', '5 C06', 'transport'),
    'C07': ('model_checking',
            'TLA+ model Codec (incremental decoder carry-over under arbitrary cuts, BOMs, invalid units, error policies) checked by TLC; every path of the dumped state graph instantiated in 9 encodings x 3 policies and replayed on pty / fd / popen / socket (read, expect and awaited variants), state after every read compared with TLC\'s',
            'TLC proves WholeStream / CarryEmptyAtBoundary / NothingDropped ... for every cut set of streams of <= 3-4 characters of width 1-4; ~49k (quick) replays on the real transports with the cuts exactly where the model put them; text, types and logfile_read compared with the model state and with one-shot decoding',
            'codec correctness is Python\'s; gb18030 streams where the codec disagrees with itself are dropped', '5 C07', 'codec'),
    'C08': ('model_checking',
            'TLA+ model SendLog (send family, control bytes, encoder state, three logs) checked by TLC; every transition of the dumped graphs (4 transports) taken on fresh real objects with a raw-mode reporting peer; peer bytes, return values, logs compared with the TLC successor state',
            'TLC proves PeerGotExactly / ReturnValue / NoSpuriousFailure / FailedSendPrefix for all operation sequences in the bound, including the rest of the object\'s life between the sends (read time-outs, half-close, peer gone, stalled big sends, awaited reads with cancellation); ~104k steps on real pty / fd / popen / socket objects, all 38 control names, payloads up to 4 MB with a gated draining peer, writelines with every iterable form, a descendant reading the pty after the started process has gone',
            'barrier markers written below pexpect delimit what the peer got', '5 C08', 'sendlog'),
    'C09': ('model_checking',
            'TLA+ model Lifecycle (child process table x descriptor x object flags x every lifecycle operation as the code performs it) checked by TLC; operation sequences executed on steered real children (pty, Popen), every trace validated by TLC (LifecycleTrace); sweep over 256 exit codes and all terminating signals x observation paths',
            'TLC proves ObservedStatusTrue / StatusStable / WaitReturnsCode / NoClaimWithoutStatus (core flag of the fate, a foreign reaper and SIGCHLD ignored in the model); ~24k real operation sequences per quick run judged by TLC (all 256 exit codes, terminating signals incl. real core dumps, status stolen by another waitpid), plus run(withexitstatus) stopping while the child is alive',
            'signal effects awaited with waitid(WNOWAIT); races inside one delayafter* pause are outside the model', '5 C09', 'lifecycle'),
    'C10': ('model_checking',
            'same model: NeverAliveAfterReaped, NeverTerminatedWhileRunning, ForceLeavesDead, CloseIdempotent, NoLeak, AfterCloseIoFails; every operation sequence <= 3 (thorough 4) x dispositions x transports on real children / descriptors / sockets, /proc observations, an intruder dup2\'ed onto a freed descriptor number; traces validated by TLC',
            'TLC proves the six invariants over all sequences in the bound; ~42k real operation sequences per quick run judged by TLC (log files closed by their owner, descriptors numbered 0-2, a dropped object released by reference counting, no signal to a reaped pid, a dropped fdspawn / SocketSpawn wrapper leaving the caller\'s descriptor alone)',
            'as C09', '5 C10', 'lifecycle'),
    'C11': ('model_checking',
            'same SendLog model: LogReadExact, LogSendExact, LogAllInterleaved, EveryWriteFlushed, LogTypeIsApiType; same walks with recording log objects (value, type, flush count), plus in-process interact() on an outer pty',
            'TLC proves the log invariants (13 in all, incl. FailedSendLogged and TakenExact; 9 model mutants refuted); every transition taken on real objects incl. interact() copy steps, failing sends, output arriving between a cancelled awaited call and the next one',
            'as C08', '5 C11', 'sendlog'),
    'C12': ('model_checking',
            'TLA+ model Run (the run() loop over the contract ExpectAbs against scripted child programs) checked by TLC; the real run() executed with run.spawn rebound to a scripted dialogue child, traces validated by TLC against ExpectTrace (contract + run() clauses: output exactly once, one answer per occurrence, callbacks with the state dictionary)',
            'TLC proves CollectedOnce / ReturnsWholeOutput / AnsweredOnce for every program, chunking and event table in the bound; about a thousand real run() executions (dict/list tables, string/function/method responses, EOF/TIMEOUT events, bytes/unicode) are judged event by event by TLC; real children for the exit status',
            'dialogue child is scripted; virtual timeouts', '5 C12', 'run'),
    'C13': ('model_checking',
            'TLA+ model Launch: split_command_line as a character-class state machine with three quoting styles (RoundTrip checked by TLC over every argument list in the bound), PATH resolution (which) over every layout, configuration pass-through table; every TLC-enumerated case replayed on split_command_line / which() and sampled through real pty and Popen children reporting argv, exe, cwd, environ, winsize, ECHO, SIGHUP',
            'TLC enumerates ~91k (quick) / ~4M (thorough) quoted command lines, 1,710 PATH layouts and 272 configurations with the expected result; each is an implementation test against the real code; real probe children report what they were started with; LaunchHist adds lookups over a history of file-system changes (every Lookup transition of the TLC graph taken on which() in one process, sampled through real launches) and the working directory as a path resolved component by component (symlinks, .., .)',
            'probe children are the oracle for the configuration half; PopenSpawn executable lookup is subprocess\'s', '5 C13', 'launch'),
    'C15': ('model_checking',
            'TLA+ model Interact (flush pending, raw mode, two-way copy loop with escape search and filters, restore) checked by TLC over every cutting of keystrokes/output into loop iterations; every path of the TLC state graph replayed in-process on the real interact() (real inner pty child, outer pty as the user, injections placed before each select) and compared with the final state TLC computed',
            'TLC proves ChildGetsTypedUpToEscape / UserGetsPendingThenOutput / PendingConsumed / ModeRestored for escape absent/first/middle/last/repeated, filters on/off, escape None; 1,500 (quick) / all (thorough) graph paths are executed on the real code and the bytes each side received compared',
            'the graph paths use a small byte alphabet; all byte values, multi-byte and undecodable text, bursts larger than one read, unicode objects with every error policy, the child\'s exit between read and write are exercised by payload runs judged by the property itself; sys.stdout redirected to the outer pty for the initial flush; select/poll alternate', '5 C15', 'interact'),
    'C16': ('model_checking',
            'TLA+ model Repl (run_command over ExpectAbs against a REPL environment with prompts sharing a prefix) checked by TLC for every chunking; the real REPLWrapper driven against a scripted REPL (blocking and awaited) with TLC trace validation (ExpectTrace: contract + C16 clauses), plus generated commands with known output on the real bash and python REPLs',
            'TLC proves OwnOutput / Usable for every command sequence and chunking in the bound; hundreds of command sequences through the real wrapper are judged by TLC (each expect call against the contract, each return value against the command\'s own output); real REPLs up to hundreds of KB',
            'zsh not installed; large real outputs compared directly; real bash (user rc files with scalar / array PROMPT_COMMAND, own PS2; command lines to 9 kB) and python (caller-chosen prompts of unequal length), blocking and awaited', '5 C16', 'repl'),
    'C14': ('model_checking',
            'TLA+ model AsyncExpect (expect_async + PatternWaiter on an asyncio loop/transport model, over ExpectImpl) checked by TLC for every arrival schedule; histories mixing blocking and awaited calls run through the real expect_async on a virtual-time asyncio loop with a hand-fed transport, traces validated by TLC against the contract ExpectAbs (ExpectTrace)',
            'TLC proves conservation (also of what the caller is given), no lost result, TIMEOUT only without occurrence, genuine/leftmost/lowest index on the awaited path; real awaited executions are judged event by event against the same contract the blocking path is bound to (C01-C04), so parity is decided by TLC',
            'event loop / read transport semantics are those of harness/vloop.py (CPython 3.12) for the TLC-validated histories; mixed blocking / awaited histories and calls cancelled from outside are also run on a real pty child under a real asyncio loop and compared with the all-blocking history; _async_pre_await.py not importable here', '5 C14', 'async'),
    'C17': ('model_checking',
            'TLA+ model Pxssh (login() as written - two-phase decision procedure, prompt synchronisation, set_unique_prompt - against a reactive ssh server at dialogue-token level) checked by TLC over every server configuration x options; the real login() run against a scripted server for every configuration, transcripts validated by TLC (PxsshTrace clauses) and compared with the model\'s prediction',
            'TLC proves the five invariants with the named deviations off and exhibits the witnesses of the two recorded findings with the code as it is; 2,800 (quick) / ~26,000 (thorough) real login() dialogues are judged by TLC clause by clause; the as-is model predicts result and client transcript of each',
            'scripted ssh (no network); token-level model; virtual timeouts; caller-supplied password_regex / original_prompt, slow servers, a second login through a jump host on the same object and prompt() with commands typed ahead are covered by trace validation only (no model prediction)', '5 C17', 'pxssh'),
    'C18': ('model_checking',
            'TLA+ model AnsiFsm (the ANSI parser table with parameter stack over 40 input classes) on top of Screen, checked by TLC exhaustively on tiny screens; one implementation test per transition of the dumped graph; chunk independence over TLC-simulated inputs in every split; random sequences on larger screens validated by TLC (ScreenAnsiTrace)',
            'TLC proves Shape / CursorOnScreen / NoResidue / Total on 2x2..3x4; 411k (quick) transitions replayed on the real ANSI object; 69k splits incl. cuts inside escape sequences and multi-byte characters; interleaved histories of 2-3 live terminals (one reference state per terminal in the trace spec); FsmLib: pexpect/FSM.py for every table over a small alphabet (1.16M states) + sessions of the real class judged by FsmTrace',
            'cell alphabet abstracted; numeric parameters saturate', '5 C18', 'screen'),
    'C19': ('model_checking',
            'TLA+ reference grid Screen (31 documented methods with explicit frame conditions, accessors as functions of the grid) checked by TLC; one implementation test per transition (1.2M quick) + every accessor in every graph state; random operation sequences on 24x80 etc. validated by TLC',
            'every operation x argument class x state of tiny screens compared with the reference grid; accessors compared with the TLC table; every character operation repeated with an argument the screen refuses (state must be unchanged)',
            'where the documentation is silent the reference follows the code or is nondeterministic', '5 C19', 'screen'),
    'C20': ('model_checking',
            'TLA+ decision table PatternForms enumerated and checked for consistency by TLC; one implementation test per table row (MongoDB-style): same scripted stream under the form and under the reference pattern',
            'every row of the table (mode x ignorecase x form x flag set x entry point) is executed on the real code over discriminating streams; rejected rows must raise TypeError with nothing read and pending text intact',
            'equivalence judged by Python re on both sides; five pattern identities discriminate the flags', '5 C20', 'patternforms'),
}

NOT_YET = {}


def check_entry(pid):
    cat, tech, text, note, ref, engine = CLAIMED[pid]
    return {
        'property_id': pid,
        'quick_cmd': './check %s --tier quick' % pid,
        'thorough_cmd': './check %s --tier thorough' % pid,
        'evidence_file': '/verif/evidence/%s.json' % pid,
        'replay_cmd_template': './check %s --replay {path}' % pid,
        'engine': engine,
        'level_claimed': {'category': cat, 'text': text, 'design_ref': 'DESIGN.md section ' + ref},
        'level_note': note,
        'technique': tech,
    }


def main():
    props = [json.loads(l)['id'] for l in open(os.path.join(VERIF, 'properties.jsonl'))]
    hooks_commits = []
    m = {
        'version': 1,
        'setup_cmd': 'cd /verif && ./setup.sh',
        'hooks': {
            'guard': 'PEXPECT_VERIF',
            'enable': 'no source hooks: ./check sets PEXPECT_VERIF=1 and PYTHONPATH=/verif:/repo; the harness rebinds module globals (os, time, select wrappers, Expecter.expect_loop) from outside',
            'baseline_off_cmd': 'cd /repo && /venv/bin/python -m pytest -ra -q -p no:cacheprovider --timeout=900 --continue-on-collection-errors',
            'source_commits': hooks_commits,
            'add_only': True,
        },
        'engines': [
            {'name': 'expect', 'path': 'spec/ExpectAbs.tla spec/ExpectImpl.tla spec/ExpectTrace.tla harness/checks/expect_family.py',
             'serves_properties': ['C01', 'C02', 'C03', 'C04'],
             'kind_free_text': 'TLC model checking + TLC batch trace validation of the real expect family on a scripted transport'},
            {'name': 'transport', 'path': 'spec/PtyRead.tla spec/FdRead.tla spec/SockRead.tla harness/world.py harness/graphtrace.py harness/checks/transport.py',
             'serves_properties': ['C06', 'C05'],
             'kind_free_text': 'TLC interleaving models of read_nonblocking + schedule replay on real transports through system-call interposition + trace matching against the TLC state graph'},
            {'name': 'deadline', 'path': 'spec/Deadline.tla spec/DeadlineTrace.tla harness/checks/deadline.py harness/world.py harness/vclock.py',
             'serves_properties': ['C05'],
             'kind_free_text': 'TLC model of deadline arithmetic + TLC trace validation of timed executions on real transports under a virtual clock'},
            {'name': 'async', 'path': 'spec/AsyncExpect.tla spec/ExpectTrace.tla harness/vloop.py harness/async_driver.py harness/checks/async_parity.py',
             'serves_properties': ['C14'],
             'kind_free_text': 'TLC model of the asyncio path + TLC trace validation of real awaited executions on a virtual event loop'},
            {'name': 'run', 'path': 'spec/Run.tla spec/ExpectTrace.tla harness/checks/run_check.py', 'serves_properties': ['C12'],
             'kind_free_text': 'TLC model of run() + TLC trace validation of real run() executions against scripted dialogue children'},
            {'name': 'launch', 'path': 'spec/Launch.tla spec/MCLaunch.tla spec/LaunchHist.tla spec/MCLaunchHist.tla harness/checks/launch.py harness/peers/launch_probe.py harness/peers/cwd_probe.sh', 'serves_properties': ['C13'],
             'kind_free_text': 'TLC-enumerated split / which / configuration cases, one implementation test per case, real probe children'},
            {'name': 'repl', 'path': 'spec/Repl.tla spec/ExpectTrace.tla harness/checks/repl.py', 'serves_properties': ['C16'],
             'kind_free_text': 'TLC model of run_command + TLC trace validation on a scripted REPL + real bash/python REPLs'},
            {'name': 'pxssh', 'path': 'spec/Pxssh.tla spec/PxsshTrace.tla harness/fakessh.py harness/checks/pxssh_check.py', 'serves_properties': ['C17'],
             'kind_free_text': 'TLC model of login() vs reactive server + TLC validation of real login() transcripts + model prediction per dialogue'},
            {'name': 'interact', 'path': 'spec/Interact.tla harness/checks/interact.py harness/world.py', 'serves_properties': ['C15'],
             'kind_free_text': 'TLC model of interact() + replay of every state-graph path on the real interact() between two ptys'},
            {'name': 'codec', 'path': 'spec/Codec.tla harness/checks/codec.py harness/sendlog_world.py', 'serves_properties': ['C07'],
             'kind_free_text': 'TLC decoder model, every graph path replayed on four transports + asyncio'},
            {'name': 'sendlog', 'path': 'spec/SendLog.tla harness/checks/sendlog.py harness/sendlog_world.py harness/reclog.py harness/peers/rawpeer.py', 'serves_properties': ['C08', 'C11'],
             'kind_free_text': 'TLC send/log model, one implementation test per transition on real objects with a reporting peer'},
            {'name': 'lifecycle', 'path': 'spec/Lifecycle.tla spec/LifecycleTrace.tla harness/lifeworld.py harness/lifecases.py harness/checks/lifecycle.py', 'serves_properties': ['C09', 'C10'],
             'kind_free_text': 'TLC lifecycle model + TLC trace validation of operation sequences on real children'},
            {'name': 'screen', 'path': 'spec/Screen.tla spec/AnsiFsm.tla spec/ScreenAnsiTrace.tla spec/FsmLib.tla spec/FsmTrace.tla harness/checks/screen_ansi.py harness/checks/fsmlib.py', 'serves_properties': ['C18', 'C19'],
             'kind_free_text': 'TLC reference grid / parser FSM, one implementation test per transition, TLC trace validation of random sequences'},
            {'name': 'patternforms', 'path': 'spec/PatternForms.tla harness/checks/c20.py', 'serves_properties': ['C20'],
             'kind_free_text': 'TLC-enumerated decision table, one implementation test per row'},
        ],
        'checks': [check_entry(p) for p in props if p in CLAIMED],
        'not_applicable': [{'property_id': p, 'reason': NOT_YET.get(p, 'check not built yet in this round (planned, see DESIGN.md section 5); nothing is claimed for it')}
                           for p in props if p not in CLAIMED],
        'notes': 'All checks: ./check <ID> [--tier quick|thorough] [--replay PATH]; exit 0 held, 1 VIOLATION, 2 machinery failure.',
    }
    with open(os.path.join(VERIF, 'MANIFEST.json'), 'w') as f:
        json.dump(m, f, indent=1)
        f.write('\n')


if __name__ == '__main__':
    main()

"""Recorder for the expect family: wraps Expecter.expect_loop (the single funnel of expect,
expect_exact, expect_list, expect_loop, read, readline, readlines, iteration, run(),
REPLWrapper, pxssh) and writes call / read / ret events in the vocabulary of
spec/ExpectTrace.tla.

The wrapper is installed from outside (class attribute rebinding); nothing in /repo changes.
"""
import re
import pexpect
from pexpect import expect as _expect_mod
from pexpect.exceptions import EOF, TIMEOUT


def tmo_class(timeout):
    if timeout is None:
        return 'none'
    if timeout < 0:
        return 'neg'
    if timeout == 0:
        return 'zero'
    return 'pos'


class Recorder(object):
    """One per spawn-like object under observation."""

    def __init__(self, sp, mapping):
        self.sp = sp
        self.mapping = mapping
        self.events = []
        self.annot = None        # {'pats': [...abstract...], 'exact': bool} supplied by the driver
        sp._verif_rec = self

    def ab(self, s):
        return self.mapping.abstract(s)

    def emit(self, **ev):
        self.events.append(ev)


_orig_expect_loop = _expect_mod.Expecter.expect_loop
_installed = [False]


def _marker_name(x):
    if x is EOF:
        return 'EOF'
    if x is TIMEOUT:
        return 'TIMEOUT'
    if x is None:
        return 'None'
    return 'text'


def _match_ok(sp, exp, searcher, rec):
    """Independent cross-check of spawn.match (C02): same span and groups as a fresh
    re.match of the winning pattern at the position where `before` ends; the literal for
    exact search."""
    after, before, buf = sp.after, sp.before, sp.buffer
    W = exp.searchwindowsize
    pending = before + after + buf
    searched = pending[-W:] if W else pending
    mstart = len(searched) - len(after) - len(buf)
    if hasattr(searcher, '_strings'):
        return sp.match == after and isinstance(sp.match, type(after))
    m = sp.match
    if not hasattr(m, 'span'):
        return False
    pat = dict(searcher._searches).get(sp.match_index)
    if pat is None or m.re is not pat:
        return False
    m2 = pat.match(searched, mstart)
    if m2 is None:
        return False
    return (m.group(0) == after and m2.group(0) == after and m.groups() == m2.groups()
            and m.end() - m.start() == len(after) and m.span() == m2.span())


def install():
    if not _installed[0]:
        _expect_mod.Expecter.expect_loop = _wrapped_expect_loop_outer
        _installed[0] = True


def uninstall():
    _expect_mod.Expecter.expect_loop = _orig_expect_loop
    _installed[0] = False


def _wrapped_expect_loop_outer(self, timeout=-1):
    # keep the original exception object (and its message) for callers that look at it
    sp = self.spawn
    rec = getattr(sp, '_verif_rec', None)
    if rec is None:
        return _orig_expect_loop(self, timeout)
    box = {}

    def run():
        try:
            return _orig_expect_loop(self, timeout)
        except BaseException as e:
            box['exc'] = e
            raise
    return _record(self, timeout, run, box)


def _record(self, timeout, run, box):
    sp = self.spawn
    rec = sp._verif_rec
    searcher = self.searcher
    exact = hasattr(searcher, '_strings')
    pats = rec.annot['pats'] if rec.annot is not None else None
    W = self.searchwindowsize or 0
    if rec.annot is not None and 'W' in rec.annot:
        W = rec.annot['W']          # the window the caller asked for (per call, or the object's default for -1)
    rec.emit(e='call', pats=pats, W=W, tmo=tmo_class(timeout), exact=exact, mode='sync', ready=0)
    nreads0 = len(sp.reads)
    raised = ''
    idx = -1
    try:
        idx = run()
    except EOF:
        raised = 'EOF'
    except TIMEOUT:
        raised = 'TIMEOUT'
    except BaseException as e:
        raised = type(e).__name__
    for r in sp.reads[nreads0:]:
        if r[0] == 'data':
            rec.emit(e='read', d=rec.ab(r[1]))
        elif r[0] == 'timeout':
            rec.emit(e='rtmo')
        elif r[0] == 'eof':
            rec.emit(e='reof')
        else:
            rec.emit(e='rerr', cls=r[1])
    after = sp.after
    if raised not in ('', 'EOF', 'TIMEOUT'):
        kind = 'error'
    elif after is EOF:
        kind = 'eof'
    elif after is TIMEOUT:
        kind = 'timeout'
    elif after is None:
        kind = 'error'
    else:
        kind = 'match'
    m = sp.match
    mk = _marker_name(m) if (m is EOF or m is TIMEOUT or m is None) else ('re' if hasattr(m, 'span') else 'str')
    mok = True
    if kind == 'match':
        try:
            mok = bool(_match_ok(sp, self, searcher, rec))
        except Exception:
            mok = False
    st = sp.string_type
    rec.emit(e='ret', kind=kind, idx=idx if raised == '' else -1, raised=raised,
             before=rec.ab(sp.before if sp.before is not None else st()),
             after=rec.ab(after) if kind == 'match' else [],
             afterk=_marker_name(after), buffer=rec.ab(sp.buffer),
             mi=sp.match_index if sp.match_index is not None else -1, mk=mk, mok=mok,
             tok=bool(isinstance(sp.before, st) and isinstance(sp.buffer, st)
                      and (kind != 'match' or isinstance(after, st))))
    if raised == '':
        return idx
    raise box['exc']

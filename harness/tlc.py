"""Thin driver around TLC: run a model / trace spec, parse statistics, coverage and errors.

Everything runs offline with the pre-installed tla2tools.jar.  Scratch (metadir, generated
cfg/json) lives under /verif/out/<tag>.<pid>/ and is removed by the caller.
"""
import os, re, shutil, subprocess, sys, time, json

VERIF = os.path.dirname(os.path.dirname(os.path.abspath(__file__)))
SPEC = os.path.join(VERIF, 'spec')
JAR = '/opt/veriftools/tla/tla2tools.jar:/opt/veriftools/tla/CommunityModules-deps.jar'


class TLCError(Exception):
    """Machinery failure (exit status 2 of a check): TLC crashed, spec does not parse ..."""


def scratch(tag):
    d = os.path.join(VERIF, 'out', '%s.%d' % (tag, os.getpid()))
    os.makedirs(d, exist_ok=True)
    return d


def java_cmd(heap='4g', depth_first=False, tmpdir=None):
    cmd = ['java', '-XX:+UseParallelGC', '-Xmx' + heap]
    if tmpdir:
        # TLC creates a scratch directory per run under java.io.tmpdir: keep it inside the check's own work directory
        os.makedirs(tmpdir, exist_ok=True)
        cmd.append('-Djava.io.tmpdir=' + tmpdir)
    if depth_first:
        cmd.append('-Dtlc2.tool.queue.IStateQueue=StateDeque')
    cmd += ['-cp', JAR, 'tlc2.TLC']
    return cmd


_STATS = re.compile(r'(\d[\d,]*) states generated, (\d[\d,]*) distinct states found, (\d[\d,]*) states left on queue')
_DEPTH = re.compile(r'The depth of the complete state graph search is (\d+)')
_COV = re.compile(r'^<(\w+) line (\d+), col \d+ to line \d+, col \d+ of module (\w+)>: (\d+):(\d+)', re.M)
_INV = re.compile(r'Invariant (\w+) is violated')
_ACT = re.compile(r'Action property (\w+) is violated')
_PROP = re.compile(r'Temporal properties were violated')


def run(module, cfg, workdir, workers=16, timeout=600, coverage=False, simulate=None,
        depth=None, seed=None, extra=(), env=None, heap='6g', cwd=None, depth_first=False,
        outname='tlc.out', only=None):
    """Run TLC on spec/<module>.tla with config file `cfg` (absolute path, or name under spec/).

    `only`: name (or set of names) of the INVARIANT/PROPERTY lines to keep - used by witness
    configurations, where several properties fail and which one a multi-worker TLC reports first is
    a race; checking one at a time makes the reported name deterministic.

    Returns a dict: ok (no violation and finished), generated, distinct, depth, coverage
    {action: (distinct, generated)}, violated (name or None), out (path of the raw output),
    wall_s, cmd.
    """
    cfgp = cfg if os.path.isabs(cfg) else os.path.join(SPEC, cfg)
    if only is not None:
        keep = {only} if isinstance(only, str) else set(only)
        lines = []
        for ln in open(cfgp).read().splitlines():
            w = ln.split()
            if len(w) >= 2 and w[0] in ('INVARIANT', 'INVARIANTS', 'PROPERTY', 'PROPERTIES'):
                w = [w[0]] + [x for x in w[1:] if x in keep]
                if len(w) == 1:
                    continue
                ln = ' '.join(w)
            lines.append(ln)
        cfgp = os.path.join(workdir, 'only.%s.cfg' % outname)
        with open(cfgp, 'w') as f:
            f.write('\n'.join(lines) + '\n')
    meta = os.path.join(workdir, 'meta.%s' % outname)
    shutil.rmtree(meta, ignore_errors=True)
    cmd = java_cmd(heap, depth_first, tmpdir=os.path.join(workdir, 'jtmp')) + ['-workers', str(workers), '-metadir', meta, '-noGenerateSpecTE',
                            '-config', cfgp]
    if coverage:
        cmd += ['-coverage', '1']
    if simulate:
        cmd += ['-simulate', simulate]
    if depth:
        cmd += ['-depth', str(depth)]
    if seed is not None:
        cmd += ['-seed', str(seed)]
    cmd += list(extra) + [module + '.tla']
    out = os.path.join(workdir, outname)
    t0 = time.time()
    e = dict(os.environ)
    if env:
        e.update(env)
    with open(out, 'w') as f:
        try:
            p = subprocess.run(cmd, cwd=cwd or SPEC, stdout=f, stderr=subprocess.STDOUT, timeout=timeout, env=e)
            rc = p.returncode
            timed_out = False
        except subprocess.TimeoutExpired:
            rc = -1
            timed_out = True
    wall = time.time() - t0
    shutil.rmtree(meta, ignore_errors=True)
    txt = open(out, errors='replace').read()
    res = dict(rc=rc, timed_out=timed_out, wall_s=round(wall, 2), out=out,
               cmd=' '.join(['tlc'] + cmd[cmd.index('tlc2.TLC') + 1:]),
               generated=0, distinct=0, depth=0, coverage={}, violated=None, ok=False)
    m = None
    for m in _STATS.finditer(txt):
        pass
    if m:
        res['generated'] = int(m.group(1).replace(',', ''))
        res['distinct'] = int(m.group(2).replace(',', ''))
        res['queue'] = int(m.group(3).replace(',', ''))
    m = _DEPTH.search(txt)
    if m:
        res['depth'] = int(m.group(1))
    for m in _COV.finditer(txt):
        name = m.group(1)
        d, g = int(m.group(4)), int(m.group(5))
        od, og = res['coverage'].get(name, (0, 0))
        res['coverage'][name] = (od + d, og + g)
    m = _INV.search(txt) or _ACT.search(txt)
    if m:
        res['violated'] = m.group(1)
    elif _PROP.search(txt):
        res['violated'] = 'temporal'
    if 'Postcondition' in txt and 'is false' in txt or 'violated' in txt and 'POSTCONDITION' in txt.upper() and res['violated'] is None:
        m2 = re.search(r'[Pp]ost-?condition (\w+)', txt)
        res['violated'] = res['violated'] or ('postcondition:' + (m2.group(1) if m2 else '?'))
    finished = 'Model checking completed' in txt or 'Finished in' in txt
    errors = ('Parsing or semantic analysis failed' in txt or 'TLC threw an unexpected exception' in txt
              or 'Error: ' in txt and res['violated'] is None and 'is violated' not in txt)
    res['machinery_error'] = bool(errors) or (not finished and not timed_out and rc not in (0, 12, 13))
    res['ok'] = (res['violated'] is None and not res['machinery_error'] and not timed_out and rc == 0)
    return res


def require_ok(res, what):
    """A model-checking run that is part of a check must finish without violation."""
    if res['machinery_error'] or res['timed_out']:
        raise TLCError('%s: TLC did not finish cleanly (rc=%s timed_out=%s), see %s' % (
            what, res['rc'], res['timed_out'], res['out']))
    return res


def counterexample(res):
    """Return the raw text of the error trace printed by TLC (states), for replay files."""
    txt = open(res['out'], errors='replace').read()
    i = txt.find('Error:')
    return txt[i:] if i >= 0 else ''


def write_cfg(path, spec='Spec', constants=(), invariants=(), properties=(), constraints=(),
              postcondition=None, deadlock=False, view=None, init=None, next_=None):
    lines = []
    if init:
        lines += ['INIT ' + init, 'NEXT ' + next_]
    else:
        lines.append('SPECIFICATION ' + spec)
    if constants:
        lines.append('CONSTANTS')
        for k, v in constants:
            lines.append('  %s %s' % (k, v))      # v includes '=' or '<-'
    for i in invariants:
        lines.append('INVARIANT ' + i)
    for p in properties:
        lines.append('PROPERTY ' + p)
    for c in constraints:
        lines.append('CONSTRAINT ' + c)
    if view:
        lines.append('VIEW ' + view)
    if postcondition:
        lines.append('POSTCONDITION ' + postcondition)
    lines.append('CHECK_DEADLOCK ' + ('TRUE' if deadlock else 'FALSE'))
    with open(path, 'w') as f:
        f.write('\n'.join(lines) + '\n')
    return path

"""Shared plumbing of the checks: context (tier, seed, scratch), result collection,
known-findings matching, replay files, exit status."""
import json, os, shutil, sys, time, traceback

VERIF = os.path.dirname(os.path.dirname(os.path.abspath(__file__)))
REPO = os.environ.get('VERIF_REPO', '/repo')


def assert_repo():
    import pexpect
    root = os.path.realpath(REPO)
    here = os.path.realpath(os.path.dirname(pexpect.__file__))
    if not here.startswith(root + os.sep):
        raise SystemExit('machinery error: pexpect imported from %s, not from %s' % (here, root))


class Failure(object):
    """One concrete case on which the real code broke the property."""

    def __init__(self, clause, case, detail=None, signature=None):
        self.clause = clause          # e.g. 'C01:accounting-after-match'
        self.case = case              # JSON-able description sufficient to re-execute it
        self.detail = detail
        self.signature = signature or {}   # facts the known-findings predicates look at


class Ctx(object):
    def __init__(self, pid, tier, seed, replay=None):
        self.pid = pid
        self.tier = tier
        self.seed = seed
        self.replay = replay
        self.t0 = time.time()
        self.work = os.path.join(VERIF, 'out', '%s.%d' % (pid, os.getpid()))
        shutil.rmtree(self.work, ignore_errors=True)
        os.makedirs(self.work)
        # replay files of earlier runs of this check are stale
        import glob
        for f in glob.glob(os.path.join(VERIF, 'out', 'replays', '%s-*.json' % pid)):
            if not replay or os.path.abspath(f) != os.path.abspath(replay):
                try:
                    os.unlink(f)
                except OSError:
                    pass
        self.failures = []
        self.notes = []
        self.drift = 0
        self.findings = [f for f in load_findings() if f['property'] == pid]

    def quick(self):
        return self.tier == 'quick'

    def note(self, s):
        self.notes.append(s)
        print('  ' + s, flush=True)

    def fail(self, clause, case, detail=None, signature=None):
        self.failures.append(Failure(clause, case, detail, signature))

    def cleanup(self):
        shutil.rmtree(self.work, ignore_errors=True)
        try:
            os.rmdir(os.path.join(VERIF, 'out'))
        except OSError:
            pass

    def wall(self):
        return time.time() - self.t0


def load_findings():
    p = os.path.join(VERIF, 'known_findings.json')
    if not os.path.exists(p):
        return []
    return json.load(open(p))['findings']


def matches(finding, failure):
    """A known finding matches a failure when every key of its signature equals the
    corresponding fact of the failure (clause prefix + narrow facts about the case)."""
    if finding.get('status') != 'known':
        return False
    sig = finding.get('signature', {})
    facts = dict(failure.signature)
    facts['clause'] = failure.clause
    for k, v in sig.items():
        if isinstance(v, list):
            if facts.get(k) not in v:
                return False
        elif facts.get(k) != v:
            return False
    return True


def selftest_possible(ctx, cands, what, broken=None):
    """A binding self-test corrupts a PASSING recorded execution.  On a tree that breaks the property so thoroughly that
    no execution of the needed shape passes there is nothing to corrupt: the violations are being reported anyway, so
    the self-test is skipped (with a note).  With no violation at all an empty candidate list is a vacuity error."""
    from . import tlc
    if cands:
        return True
    if broken is None:
        broken = bool(ctx.failures)
    if broken:
        ctx.note('binding self-test skipped: no passing execution with %s on this tree (the violations above are reported)' % what)
        return False
    raise tlc.TLCError('self-test: no suitable execution (%s) in the corpus' % what)


def conclude(ctx):
    """Print VIOLATION / KNOWN-FINDING lines, write replay files, return the exit status."""
    known_hit = {}
    violations = []
    for f in ctx.failures:
        hit = None
        for k in ctx.findings:
            if matches(k, f):
                hit = k
                break
        if hit:
            known_hit.setdefault(hit['id'], (hit, []))[1].append(f)
        else:
            violations.append(f)
    for kid, (k, fs) in sorted(known_hit.items()):
        print('KNOWN-FINDING: property=%s %s (%s; %d case(s) this run, e.g. %s)' % (
            ctx.pid, k['what'], kid, len(fs), json.dumps(fs[0].case, default=str)[:300]))
    rdir = os.path.join(VERIF, 'out', 'replays')
    shown = 0
    seen_clause = {}
    for f in violations:
        seen_clause[f.clause] = seen_clause.get(f.clause, 0) + 1
        if seen_clause[f.clause] > 3:
            continue
        os.makedirs(rdir, exist_ok=True)
        p = os.path.join(rdir, '%s-%d-%d.json' % (ctx.pid, os.getpid(), shown))
        with open(p, 'w') as fh:
            json.dump({'property': ctx.pid, 'clause': f.clause, 'case': f.case, 'detail': f.detail,
                       'signature': f.signature}, fh, indent=1, default=str)
        print('VIOLATION property=%s replay=%s' % (ctx.pid, p))
        print('  clause: %s' % f.clause)
        if f.detail:
            print('  detail: %s' % (json.dumps(f.detail, default=str)[:1500]))
        shown += 1
    if violations:
        print('%d violating case(s) in %d clause(s): %s' % (len(violations), len(seen_clause),
                                                         ', '.join('%s x%d' % kv for kv in sorted(seen_clause.items()))))
    return (1 if violations else 0), len(violations), sum(len(v[1]) for v in known_hit.values())

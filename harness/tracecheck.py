"""Batch trace validation: split a list of traces over N TLC processes (each -workers 1, one
JVM start per few thousand traces), collect one verdict per trace.
"""
import json, os, re, subprocess, sys, time
from concurrent.futures import ThreadPoolExecutor
from . import tlc

_VERDICT = re.compile(r'<< ?"VERDICT", (\d+), ("[^"]*"|-?\d+), "([^"]*)", (\d+) ?>>')


def validate(traces, module, workdir, constants=(), procs=16, timeout=900, spec='TraceSpec',
             invariants=(), tag='trace', pass_through=False):
    """traces: list of {'id': ..., 'ev': [...]} -> (verdicts {id: verdict}, stats)"""
    if not traces:
        return {}, dict(generated=0, distinct=0, wall_s=0.0, runs=0)
    procs = max(1, min(procs, (len(traces) + 199) // 200))
    parts = [traces[i::procs] for i in range(procs)]
    cfg = tlc.write_cfg(os.path.join(workdir, '%s.cfg' % tag), spec=spec, constants=constants,
                        invariants=invariants)

    def one(i):
        tf = os.path.join(workdir, '%s.%d.json' % (tag, i))
        with open(tf, 'w') as f:
            json.dump([(t if pass_through else {'id': t['id'], 'ev': t['ev']}) for t in parts[i]], f)
        res = tlc.run(module, cfg, workdir, workers=1, timeout=timeout, env={'TRACE_FILE': tf},
                      outname='%s.%d.out' % (tag, i), heap='3g')
        txt = re.sub(r'\s+', ' ', open(res['out'], errors='replace').read())      # PrintT wraps long tuples
        v = {}
        for m in _VERDICT.finditer(txt):
            names = m.group(3).split('|')          # every failing clause of the event, the first one first
            v[json.loads(m.group(2)) if m.group(2).startswith('"') else int(m.group(2))] = (names[0], int(m.group(4)), names)
        return res, v, len(parts[i])

    t0 = time.time()
    with ThreadPoolExecutor(procs) as ex:
        results = list(ex.map(one, range(procs)))
    verdicts, allc = {}, {}
    gen = dist = 0
    for res, v, n in results:
        if res['machinery_error'] or res['timed_out'] or res['violated'] or len(v) != n:
            raise tlc.TLCError('trace validation run failed (rc=%s, %d/%d verdicts, violated=%s): %s' % (
                res['rc'], len(v), n, res['violated'], res['out']))
        for k, x in v.items():
            verdicts[k] = x[:2]
            allc[k] = x[2]
        gen += res['generated']
        dist += res['distinct']
    return verdicts, dict(generated=gen, distinct=dist, wall_s=round(time.time() - t0, 2), runs=procs,
                          cmd=results[0][0]['cmd'], all=allc)

"""Agreement self-test Pat.tla vs Python re (run by setup.sh and by the C02/C03/C20 checks)."""
import json, os, sys
from . import tlc, pat as P


def run(workdir, maxlen=4):
    out = os.path.join(workdir, 'pat_selftest.json')
    cfg = tlc.write_cfg(os.path.join(workdir, 'pat_selftest.cfg'), init='Init', next_='Next',
                        constants=[('MaxLen', '= %d' % maxlen)])
    res = tlc.run('PatSelfTest', cfg, workdir, workers=1, timeout=300, env={'OUT_FILE': out}, outname='patself.out')
    if not os.path.exists(out):
        raise tlc.TLCError('Pat self-test: TLC did not write its table, see ' + res['out'])
    d = json.load(open(out))
    forms, rows = d['forms'], d['rows']
    n = bad = 0
    for mapping in (P.ASCII, P.UNI):
        for r in rows:
            text = r['text']
            for k, f in enumerate(forms):
                want = list(P.naive_search([f], text, mapping))
                got = r['res'][k]
                n += 1
                if want != got:
                    bad += 1
                    if bad < 5:
                        print('Pat self-test mismatch: form %r text %r TLC %r re %r' % (f, text, got, want))
    if bad:
        raise tlc.TLCError('Pat.tla disagrees with Python re on %d of %d cases' % (bad, n))
    return n


if __name__ == '__main__':
    wd = tlc.scratch('patself')
    print('Pat self-test: %d cases agree' % run(wd))
    import shutil
    shutil.rmtree(wd)

#!/bin/sh
# Steered peer for the transport / lifecycle worlds.  $1 = command FIFO, $2 = ack FIFO.
# Commands (one per line): c  close stdin/stdout/stderr (hang up the terminal, keep running)
#                          x<code>  exit with that code        k<sig> kill self with signal
#                          a  acknowledge only
exec 3<"$1" 4>"$2"
while read cmd <&3; do
  case "$cmd" in
    c) exec 0<&- 1>&- 2>&-; echo ok >&4 ;;
    a) echo ok >&4 ;;
    x*) exit "${cmd#x}" ;;
    k*) kill -"${cmd#k}" $$ ;;
  esac
done
exit 0

#!/venv/bin/python -IS
"""C13 probe: reports how it was started (argv, cwd, initial environment block, terminal
size / ECHO flag of its stdin, SIGHUP disposition, umask) as JSON to the file argv[1]."""
import json, os, signal, struct, sys


def main():
    rep = {'argv': sys.argv, 'cwd': os.getcwd()}
    # the environment block exactly as execve passed it (os.environ may be touched by the interpreter)
    raw = open('/proc/self/environ', 'rb').read().split(b'\0')
    env = {}
    for item in raw:
        if item:
            k, _, v = item.partition(b'=')
            env[k.decode('utf-8', 'surrogateescape')] = v.decode('utf-8', 'surrogateescape')
    rep['environ'] = env
    rep['tty'] = os.isatty(0)
    rep['winsize'] = None
    rep['echo'] = None
    if rep['tty']:
        import fcntl, termios
        rows, cols, _, _ = struct.unpack('HHHH', fcntl.ioctl(0, termios.TIOCGWINSZ, b'\0' * 8))
        rep['winsize'] = [rows, cols]
        rep['echo'] = bool(termios.tcgetattr(0)[3] & termios.ECHO)
    sigign = 0
    for line in open('/proc/self/status'):
        if line.startswith('SigIgn:'):
            sigign = int(line.split()[1], 16)
    rep['sighup_ignored_mask'] = bool(sigign & (1 << (signal.SIGHUP - 1)))
    rep['sighup_getsignal'] = {signal.SIG_IGN: 'ignored', signal.SIG_DFL: 'default'}.get(signal.getsignal(signal.SIGHUP), 'handler')
    um = os.umask(0)
    os.umask(um)
    rep['umask'] = um
    tmp = sys.argv[1] + '.tmp'
    with open(tmp, 'w') as f:
        json.dump(rep, f)
    os.replace(tmp, sys.argv[1])


main()

#!/bin/sh
# C13 probe: reports its argument vector (every element followed by a NUL byte) to the
# file named by $VERIF_PROBE_OUT.  Uses shell builtins only (PATH may hold nothing else).
printf '%s\0' "$0" "$@" > "$VERIF_PROBE_OUT"

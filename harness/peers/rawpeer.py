"""Reporting peer for the send / logging checks (C08, C11).

usage: python -S -E rawpeer.py <report-fifo>

Puts its terminal (if stdin is one) into raw mode, so that what it reads is byte for byte what
was written to the pty master (no CR/LF translation, no echo, no signal or EOF characters), then
copies everything it reads from stdin to the report FIFO - never to its stdout/the pty - until
end of file.  The first byte of the report is b'R' ("ready, raw mode is set").
It never writes to its stdout: the harness plays "the child's output" itself through
/proc/<pid>/fd/1, so that the placement of child output is under the harness' control.
On SIGUSR1 it lets go of its output side (fd 1 and 2 are pointed at /dev/null) and keeps reading.
"""
import os
import signal
import sys


def release_output(signum, frame):
    null = os.open(os.devnull, os.O_WRONLY)
    os.dup2(null, 1)
    os.dup2(null, 2)
    os.close(null)


def main():
    rep = os.open(sys.argv[1], os.O_WRONLY)
    signal.signal(signal.SIGUSR1, release_output)
    if os.isatty(0):
        import tty
        tty.setraw(0)
    os.write(rep, b'R')
    while True:
        try:
            d = os.read(0, 65536)
        except OSError:
            break
        if not d:
            break
        while d:
            n = os.write(rep, d)
            d = d[n:]
    os.close(rep)


if __name__ == '__main__':
    main()

#!/bin/sh
# Peer for the lifecycle checks (C09/C10).  $1 = command FIFO, $2 = disposition (default | ignore | core).
# core: default dispositions, but the core size limit is raised and the working directory is the
# (throw-away) directory of the FIFO, so that a core-dumping signal really dumps core there.
# The traps are installed before the FIFO is opened, so once the harness' open() of the FIFO
# returns the disposition is in force.  Commands (one per line):
#   x<code>  exit with that code        k<sig>  kill self with that signal
# The peer never writes to its terminal / stdout.
[ "$2" = ignore ] && trap '' HUP INT
if [ "$2" = core ]; then
  ulimit -c unlimited 2>/dev/null || ulimit -c "$(ulimit -H -c)"
  cd "${1%/*}" || exit 98
fi
exec 3<"$1"
while read cmd <&3; do
  case "$cmd" in
    x*) exit "${cmd#x}" ;;
    k*) kill -"${cmd#k}" $$ ;;
  esac
done
exit 0

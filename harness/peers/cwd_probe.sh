#!/bin/sh
# C13 probe: reports the directory it was started in to the file named by $VERIF_PROBE_OUT:
# the marker the harness left in that directory (read through '.', i.e. resolved by the kernel
# from the process's working directory, whatever $PWD says) and the physical path.
# Shell builtins only.
node=
read -r node < ./.verif_node
printf '%s\0' "$node" "$(pwd -P)" > "$VERIF_PROBE_OUT"

"""Drivers for the matching layer (C01-C04, C20 ...): run the real expect family on the
scripted transport over generated streams / chunkings / call histories and record traces for
spec/ExpectTrace.tla.
"""
import itertools, random, re
import pexpect
from pexpect import expect as expect_mod
from . import pat as P
from .scripted import Scripted
from .recorder import Recorder, install
from .vclock import VClock

NoW = 0
TMO_VALUES = {'pos': 100, 'zero': 0, 'neg': -7, 'none': None}


def chunkings(n, maxparts=None):
    """all compositions of n (ways of cutting a stream of n units into reads)"""
    if n == 0:
        yield ()
        return
    for bits in itertools.product((0, 1), repeat=n - 1):
        parts, cur = [], 1
        for b in bits:
            if b:
                parts.append(cur)
                cur = 1
            else:
                cur += 1
        parts.append(cur)
        if maxparts is None or len(parts) <= maxparts:
            yield tuple(parts)


def make_script(raw, cuts, ending):
    """raw bytes cut into chunks of the given sizes, then the ending ('eof' | 'timeout' | None)"""
    items, pos = [], 0
    for c in cuts:
        if c == 0:
            items.append(('empty',))
        else:
            items.append(('data', raw[pos:pos + c]))
            pos += c
    assert pos == len(raw), (raw, cuts)
    if ending:
        items.append((ending,))
    return items


class Session(object):
    """A scripted spawn with a recorder and a virtual clock; `do_call` performs one call of
    the history.  A call is a dict:
        fn: 'expect' | 'expect_list' | 'expect_exact' | 'expect_loop' | 'read_n' | 'read_all'
            | 'readline' | 'setbuf'
        pats: abstract pattern list;  W: window (0 = none);  tmo: class;  n: size for read_n;
        v: abstract text for setbuf;  wvia: 'arg' | 'attr' (how W is passed)
    """

    def __init__(self, mapping, script, maxread=2000, ignorecase=False):
        install()
        self.mapping = mapping
        self.clock = VClock()
        self.clock.install(expect_mod)
        enc = mapping.encoding if mapping.unicode_mode else None
        self.sp = Scripted(script, timeout=100, maxread=maxread, encoding=enc, clock=self.clock, read_cost=0.001)
        self.sp.ignorecase = ignorecase
        self.rec = Recorder(self.sp, mapping)

    def close(self):
        self.clock.uninstall()

    def do_call(self, c):
        sp, m, rec = self.sp, self.mapping, self.rec
        fn = c['fn']
        if fn == 'setbuf':
            sp.buffer = m.text(c['v'])
            rec.emit(e='setbuf', v=list(c['v']))
            return
        W = c.get('W', NoW)
        via = c.get('wvia', 'arg')
        if via == 'attr':
            sp.searchwindowsize = W or None
            warg = -1
        elif via == 'arg_over_default':
            # the object has its own default window; the call overrides it (None = no window on this call)
            sp.searchwindowsize = c.get('Wdefault', 2)
            warg = W or None
        else:
            sp.searchwindowsize = None
            warg = W or None
        tmo = c.get('tmo', 'pos')
        if tmo == 'default':
            targ = -1
        else:
            targ = TMO_VALUES[tmo]
        pats = c.get('pats')
        out = None
        try:
            if fn in ('expect', 'expect_list', 'expect_loop'):
                rec.annot = {'pats': pats, 'W': W}
                conc = [m.concrete(p, False) for p in pats]
                if fn == 'expect':
                    arg = conc[0] if (len(conc) == 1 and c.get('single')) else conc
                    out = sp.expect(arg, timeout=targ, searchwindowsize=warg)
                elif fn == 'expect_list':
                    out = sp.expect_list(sp.compile_pattern_list(conc), timeout=targ, searchwindowsize=warg)
                else:
                    srch = expect_mod.searcher_re(sp.compile_pattern_list(conc))
                    out = sp.expect_loop(srch, timeout=targ if targ != -1 else sp.timeout, searchwindowsize=warg)
            elif fn == 'expect_exact':
                rec.annot = {'pats': pats, 'W': W}
                conc = [m.concrete(p, True) for p in pats]
                arg = conc[0] if (len(conc) == 1 and c.get('single')) else conc
                out = sp.expect_exact(arg, timeout=targ, searchwindowsize=warg)
            elif fn == 'read_n':
                sp.searchwindowsize = W or None
                rec.annot = {'pats': [P.anyn(c['n']), P.EOFM]}
                out = sp.read(c['n'])
                rec.emit(e='flret', fn='read_n', val=rec.ab(out))
            elif fn == 'read_all':
                sp.searchwindowsize = W or None
                rec.annot = {'pats': [P.EOFM]}
                out = sp.read()
                rec.emit(e='flret', fn='read_all', val=rec.ab(out))
            elif fn == 'readline':
                sp.searchwindowsize = W or None
                rec.annot = {'pats': [P.lit(['r', 'n']), P.EOFM]}
                out = sp.readline()
                rec.emit(e='flret', fn='readline', val=rec.ab(out))
            elif fn in ('readlines', 'iter'):
                sp.searchwindowsize = W or None
                rec.annot = {'pats': [P.lit(['r', 'n']), P.EOFM]}
                rec.emit(e='flstart')
                lines = []
                try:
                    if fn == 'readlines':
                        lines = sp.readlines()
                    else:
                        for ln in sp:
                            lines.append(ln)
                finally:
                    rec.emit(e='fllines', lines=[rec.ab(x) for x in lines], sep=['r', 'n'])
                out = lines
            else:
                raise ValueError(fn)
        except (pexpect.EOF, pexpect.TIMEOUT):
            pass
        return out

    def run(self, calls):
        for c in calls:
            try:
                self.do_call(c)
            except Exception as e:       # an unexpected exception class is recorded by the recorder
                if not self.rec.events or self.rec.events[-1].get('e') != 'ret':
                    self.rec.emit(e='ret', kind='error', idx=-1, raised=type(e).__name__, before=[], after=[],
                                  afterk='None', buffer=[], mi=-1, mk='None', mok=True, tok=True)
        self.close()
        return self.rec.events


def run_history(mapping, stream, cuts, ending, calls, maxread=2000, tid=None):
    raw = mapping.raw(stream)
    s = Session(mapping, make_script(raw, cuts, ending), maxread=maxread)
    ev = s.run(calls)
    return {'id': tid, 'ev': ev,
            'meta': {'stream': list(stream), 'cuts': list(cuts), 'ending': ending, 'calls': calls,
                     'maxread': maxread, 'mode': 'unicode' if mapping.unicode_mode else 'bytes'}}


# ---------------------------------------------------------------------------------------
# pattern libraries (abstract); the same forms as spec/MCExpect.tla
EXACT_LISTS = [
    [P.lit('a')], [P.lit('ab')], [P.lit('bab')], [P.lit('ab'), P.lit('a')], [P.lit('a'), P.lit('ab')],
    [P.lit('b'), P.EOFM, P.lit('ab')], [P.TMOM, P.lit('bb'), P.EOFM], [P.lit('ba'), P.lit('ab')],
    [P.EOFM], [P.lit('aa'), P.lit('aa')], [P.TMOM], [P.lit('n'), P.lit('bn')],
    # the alphabetically greatest string is not the longest one (look-back must be the LONGEST)
    [P.lit('b'), P.lit('aab')], [P.lit('ba'), P.lit('aaba'), P.lit('b')], [P.lit('n'), P.lit('abab')], [P.lit('bb'), P.lit('abaa')],
    # an earlier-listed string lies strictly inside the occurrence of a longer, later-listed one that starts before it
    [P.lit('a'), P.lit('bab')], [P.lit('b'), P.EOFM, P.lit('abaa')], [P.lit('ab'), P.lit('babb')], [P.lit('a'), P.lit('aa'), P.lit('baab')],
]
RE_LISTS = [
    [P.lit('a')], [P.lit('ab'), P.lit('b')], [P.anyn(2)], [P.END], [P.star('a')],
    [P.plus('a'), P.lit('bb')], [P.alt('ab', 'b'), P.EOFM], [P.litend('b'), P.TMOM],
    [P.TMOM, P.lit('ba'), P.EOFM, P.lit('b')], [P.lit('n'), P.EOFM], [P.anyn(3), P.EOFM],
    [P.EOFM, P.TMOM], [P.lit('bab'), P.star('b')], [P.litend('ab'), P.lit('a')], [P.plus('b'), P.plus('a')],
    # same start, different lengths, the longer one listed first / last; a shorter one inside a longer one that starts earlier
    [P.lit('aba'), P.lit('ab')], [P.lit('ab'), P.lit('aba')], [P.lit('a'), P.lit('bab')], [P.plus('a'), P.lit('aab'), P.lit('a')],
]
ALPHA2 = ['a', 'b']
ALPHA3 = ['a', 'b', 'n']


def streams(alpha, maxlen):
    for k in range(maxlen + 1):
        for t in itertools.product(alpha, repeat=k):
            yield ''.join(t)


def random_exact_list(rng, alpha):
    n = rng.randint(1, 3)
    pl = [P.lit(''.join(rng.choice(alpha) for _ in range(rng.randint(1, 5)))) for _ in range(n)]
    if rng.random() < 0.3:
        pl.insert(rng.randint(0, len(pl)), rng.choice([P.EOFM, P.TMOM]))
    return pl


def random_re_list(rng, alpha):
    forms = [lambda: P.lit(''.join(rng.choice(alpha) for _ in range(rng.randint(1, 4)))),
             lambda: P.anyn(rng.randint(1, 4)), lambda: P.END, lambda: P.star(rng.choice(alpha)), lambda: P.plus(rng.choice(alpha)),
             lambda: P.alt(''.join(rng.choice(alpha) for _ in range(rng.randint(1, 3))), ''.join(rng.choice(alpha) for _ in range(rng.randint(1, 3)))),
             lambda: P.litend(''.join(rng.choice(alpha) for _ in range(rng.randint(1, 3))))]
    pl = [rng.choice(forms)() for _ in range(rng.randint(1, 3))]
    if rng.random() < 0.3:
        pl.insert(rng.randint(0, len(pl)), rng.choice([P.EOFM, P.TMOM]))
    return pl


def random_call(rng, alpha, allow_setbuf=True):
    r = rng.random()
    ab = [c for c in alpha if c in 'abn'] or ['a', 'b']
    W = rng.choice([0, 0, 1, 2, 3, 9])
    tmo = rng.choice(['pos', 'pos', 'pos', 'default', 'zero', 'neg', 'none'])
    wvia = rng.choice(['arg', 'attr', 'arg_over_default'])
    if r < 0.30:
        pl = rng.choice(EXACT_LISTS) if rng.random() < 0.5 else random_exact_list(rng, ab)
        return dict(fn='expect_exact', pats=pl, W=W, tmo=tmo, wvia=wvia, Wdefault=rng.choice([1, 2, 3]), single=rng.random() < .5)
    if r < 0.62:
        pl = rng.choice(RE_LISTS) if rng.random() < 0.5 else random_re_list(rng, ab)
        return dict(fn=rng.choice(['expect', 'expect', 'expect_list', 'expect_loop']), pats=pl,
                    W=W, tmo=tmo, wvia=wvia, Wdefault=rng.choice([1, 2, 3]), single=rng.random() < .5)
    if r < 0.72:
        return dict(fn='read_n', n=rng.choice([1, 2, 3]), W=W)
    if r < 0.78:
        return dict(fn='read_all', W=W)
    if r < 0.86:
        return dict(fn='readline', W=W)
    if r < 0.90:
        return dict(fn=rng.choice(['readlines', 'iter']), W=W, needs_eof=True)
    if allow_setbuf:
        return dict(fn='setbuf', v=''.join(rng.choice(alpha) for _ in range(rng.randint(0, 3))))
    return dict(fn='readline', W=W)


def random_history(rng, tid, maxlen=8, maxcalls=4, alpha=None):
    alpha = alpha or rng.choice([ALPHA2, ALPHA3, ALPHA3 + ['r']])
    n = rng.randint(0, maxlen)
    stream = ''.join(rng.choice(alpha) for _ in range(n))
    mapping = rng.choice([P.ASCII, P.ASCII, P.UNI])
    raw = mapping.raw(stream)
    # cut the raw byte stream anywhere (also inside a multi-byte character), sometimes empty reads
    cuts, left = [], len(raw)
    while left:
        c = rng.randint(1, min(left, rng.choice([1, 2, 3, 8])))
        cuts.append(c)
        left -= c
        if rng.random() < 0.08:
            cuts.append(0)
    ending = rng.choice(['eof', 'eof', 'timeout', None])
    calls = [random_call(rng, alpha) for _ in range(rng.randint(1, maxcalls))]
    if any(c.get('tmo') == 'none' or c.get('needs_eof') for c in calls):
        ending = 'eof'      # a silent peer and timeout=None would block for ever
    maxread = rng.choice([1, 2, 3, 2000])
    return run_history(mapping, stream, cuts, ending, calls, maxread=maxread, tid=tid)

"""Schedule-driven interposition ("virtual kernel boundary") for the real transports.

A World owns a real peer endpoint (pty child / pipe / socketpair / Popen child), a virtual clock
and a schedule (a list of action labels from a TLC behaviour).  The pexpect modules' references
to select / os.read / isalive / time are rebound to wrappers that, before forwarding to the real
system call, perform the peer actions the schedule places before that reader step.  The data
path therefore uses real kernel objects (real EIO / hang-up / waitpid semantics); only the
*placement* of the peer's actions and the passing of time are controlled.
"""
import errno, os, select as _select, signal, stat, sys, tempfile, time as _time, tty
import pexpect
import pexpect.pty_spawn, pexpect.spawnbase, pexpect.fdpexpect, pexpect.utils, pexpect.expect
from .vclock import VClock

PEER_SH = os.path.join(os.path.dirname(os.path.abspath(__file__)), 'peers', 'steered.sh')


class Drift(Exception):
    """the real code's system-call pattern differs from the implementation-shaped model"""


class WouldBlock(Exception):
    """the real code would block for ever at this point of the schedule"""


class _OsProxy(object):
    """stands in for the `os` module inside a pexpect module: read() is a reader step"""

    def __init__(self, world):
        self._w = world

    def read(self, fd, n):
        w = self._w
        if w.active and fd == w.reader_fd:
            w.reader_step('read')
        return os.read(fd, n)

    def __getattr__(self, name):
        return getattr(os, name)


class World(object):
    """Common part: schedule consumption, event recording, virtual clock.

    A schedule is a list of items
        ('C', args)      the driver starts the next reader call with these arguments
        ('P', label)     a peer action, e.g. 'PeerWrite(2)'
        ('R',)           one reader step (a system call of the code under test) happens here
    Peer actions are performed on the real peer end right before the reader step they precede.
    Every reader step is recorded with the observable projection of the real state after it,
    so that the recorded trace can be matched against the TLC state graph of the model.
    """

    def __init__(self):
        self.clock = VClock()
        self.schedule = []
        self.pos = 0
        self.active = False
        self.events = []
        self.extra_steps = 0
        self.timed = []          # [(virtual time, label)] peer actions that happen at a given time
        self.clock.on_advance = self.fire_due

    # ---- timed peer actions (C05): fire when the virtual clock reaches their time ----------
    def fire_due(self):
        from .stategraph import parse_action
        while self.timed and self.timed[0][0] <= self.clock.now + 1e-9:
            t, label = self.timed.pop(0)
            name, args = parse_action(label)
            self.peer(name, args)
            self.log(e='peer', a=label, t=t)

    def wait_ready(self, ready, timeout):
        """virtual-time wait: `ready()` says whether the descriptor is readable now; peer actions
        scheduled before the deadline are performed at their time; returns the final readiness"""
        self.fire_due()
        if ready() or timeout == 0:
            return ready()
        deadline = None if timeout is None else self.clock.now + timeout
        while True:
            nxt = self.timed[0][0] if self.timed else None
            if nxt is None or (deadline is not None and nxt > deadline + 1e-9):
                if deadline is None:
                    raise WouldBlock('blocking wait with nothing readable and no peer action left')
                self.clock.set(deadline)
                return ready()
            self.clock.set(max(self.clock.now, nxt))
            self.fire_due()
            if ready():
                return True

    quiet = False        # True: reader steps are performed and counted (nread ...) but not recorded

    def log(self, **ev):
        if not self.quiet:
            self.events.append(ev)

    def peers_until_marker(self):
        """perform peer items up to the next 'R' / 'C' marker (not consumed)"""
        while self.pos < len(self.schedule) and self.schedule[self.pos][0] == 'P':
            label = self.schedule[self.pos][1]
            self.pos += 1
            from .stategraph import parse_action
            name, args = parse_action(label)
            self.peer(name, args)
            if not name.startswith('Thread'):       # thread steps log what really happened themselves
                self.log(e='peer', a=label)

    def before_reader_step(self):
        self.peers_until_marker()
        if self.pos < len(self.schedule) and self.schedule[self.pos][0] == 'R':
            self.pos += 1
        else:
            self.extra_steps += 1       # the code takes more steps than the behaviour the schedule came from

    def skip_to_call(self):
        """after a call returned: drop reader markers the code did not use, run peer actions, stop at 'C'"""
        while self.pos < len(self.schedule) and self.schedule[self.pos][0] != 'C':
            if self.schedule[self.pos][0] == 'P':
                self.peers_until_marker()
            else:
                self.pos += 1

    # ---- shared wrappers: select/poll with virtual time, os.read on the reader's descriptor ----
    def do_select(self, real, timeout):
        """`real(t)` performs the real select/poll with timeout t and returns the ready list"""
        self.before_reader_step()
        if timeout == 0:
            r = real(0)
            self.log(e='step', k='select0', ready=bool(r), **self.observe())
            return r
        try:
            self.wait_ready(lambda: bool(real(0)), timeout)
        except WouldBlock:
            self.log(e='step', k='selectT', ready=False, **self.observe())
            raise
        r = real(0)
        self.log(e='step', k='selectT', ready=bool(r), **self.observe())
        return r

    def select_wrappers(self, real_select, real_poll):
        world = self

        def sel(iwtd, owtd, ewtd, timeout=None):
            if world.active and iwtd == [world.reader_fd]:
                # the wait is over when the REAL select(), called with the three sets the code passed, returns
                # something in any of them (an exceptional condition wakes a caller that asked for it); the code
                # under test gets the real triple
                box = {}

                def real(t):
                    box['r'] = real_select(iwtd, owtd, ewtd, t)
                    return list(box['r'][0]) + list(box['r'][1]) + list(box['r'][2])
                world.do_select(real, timeout)
                return box['r']
            return real_select(iwtd, owtd, ewtd, timeout)

        def pol(fds, timeout=None):
            if world.active and fds == [world.reader_fd]:
                return world.do_select(lambda t: real_poll(fds, t), timeout)
            return real_poll(fds, timeout)
        return sel, pol

    def os_proxy(self):
        world = self

        class OsProxy(object):
            def read(self_, fd, n):
                if world.active and fd == world.reader_fd:
                    world.before_reader_step()
                    # a read on a descriptor that is not readable blocks: in virtual time, until the peer's next
                    # timed action makes it readable - for ever when there is none
                    readable = lambda: bool(_select.select([fd], [], [], 0)[0])
                    if not readable():
                        try:
                            world.wait_ready(readable, None)
                        except WouldBlock:
                            o = world.observe()
                            world.log(e='step', k='read', n=0, err='block', **o)
                            raise
                    try:
                        data = os.read(fd, n)
                    except OSError as e:
                        # flag_eof is set by the caller right after this exception: not observable yet
                        o = world.observe()
                        o.pop('flagEof', None)
                        world.log(e='step', k='read', n=0, err=errno.errorcode.get(e.errno, str(e.errno)), **o)
                        raise
                    world.nread += len(data)
                    o = world.observe()
                    if not data:
                        o.pop('flagEof', None)
                    world.log(e='step', k='read', n=len(data), **o)
                    return data
                return os.read(fd, n)

            def __getattr__(self_, name):
                return getattr(os, name)
        return OsProxy()


class PtyWorld(World):
    """real pexpect.spawn on a real pty with a steered /bin/sh child"""

    def __init__(self, workdir, use_poll=False, encoding=None, unit=lambda i: bytes([65 + i % 26])):
        World.__init__(self)
        self.dir = tempfile.mkdtemp(dir=workdir)
        self.cmd_fifo = os.path.join(self.dir, 'cmd')
        self.ack_fifo = os.path.join(self.dir, 'ack')
        os.mkfifo(self.cmd_fifo)
        os.mkfifo(self.ack_fifo)
        self.unit = unit
        self.written = b''
        self.nunits = 0
        self.nread = 0
        self.peer_open = True
        self.peer_exited = False
        self.exit_code = None
        self.child = pexpect.spawn('/bin/sh', [PEER_SH, self.cmd_fifo, self.ack_fifo], timeout=5,
                                   use_poll=use_poll, encoding=encoding)
        self.child.delayafterread = None
        self.cmd = os.open(self.cmd_fifo, os.O_WRONLY)          # returns once the child opened its end
        self.ack = os.open(self.ack_fifo, os.O_RDONLY)
        self.pid = self.child.pid
        self.reader_fd = self.child.child_fd
        # our own handle on the slave side: what we write there is what "the child wrote"
        # (fd 2: the shell temporarily redirects 0 and 1 while it runs `read` / `echo`)
        self.slave = os.open('/proc/%d/fd/2' % self.pid, os.O_RDWR | os.O_NOCTTY)
        tty.setraw(self.slave)
        self._install()

    def observe(self):
        return {'lo': self.nread, 'flagEof': bool(self.child.flag_eof), 'terminated': bool(self.child.ptyproc.terminated)}

    # ---- interposition ---------------------------------------------------------
    def _install(self):
        ps = pexpect.pty_spawn
        self._saved = (ps.select_ignore_interrupts, ps.poll_ignore_interrupts, pexpect.spawnbase.os,
                       self.child.ptyproc.isalive)
        world = self
        sel, pol = self.select_wrappers(self._saved[0], self._saved[1])
        orig_isalive = self.child.ptyproc.isalive

        def isalive():
            if not world.active:
                return orig_isalive()
            world.before_reader_step()
            if (self.child.ptyproc.flag_eof and not self.child.ptyproc.terminated and not world.peer_exited):
                world.log(e='step', k='isalive', blocked=True, **world.observe())
                raise WouldBlock('blocking waitpid in the liveness check: EOF flag set, child still running')
            r = orig_isalive()
            world.log(e='step', k='isalive', alive=bool(r), **world.observe())
            return r

        ps.select_ignore_interrupts = sel
        ps.poll_ignore_interrupts = pol
        pexpect.spawnbase.os = self.os_proxy()
        self.child.ptyproc.isalive = isalive
        self.clock.install(pexpect.pty_spawn, pexpect.expect, pexpect.utils)

    def close_interposition_only(self):
        """give the module globals back (for harnesses that install their own wrappers)"""
        ps = pexpect.pty_spawn
        ps.select_ignore_interrupts, ps.poll_ignore_interrupts, pexpect.spawnbase.os = self._saved[:3]
        self.child.ptyproc.isalive = self._saved[3]
        self.clock.uninstall()
        self.active = False

    def close(self):
        ps = pexpect.pty_spawn
        ps.select_ignore_interrupts, ps.poll_ignore_interrupts, pexpect.spawnbase.os = self._saved[:3]
        self.clock.uninstall()
        self.active = False
        for fd in (self.cmd, self.ack, getattr(self, 'slave', None)):
            try:
                if fd is not None:
                    os.close(fd)
            except OSError:
                pass
        try:
            os.kill(self.pid, signal.SIGKILL)
        except OSError:
            pass
        try:
            self.child.ptyproc.isalive = self._saved[3]
            self.child.close(force=True)
        except Exception:
            pass
        for p in (self.cmd_fifo, self.ack_fifo):
            try:
                os.unlink(p)
            except OSError:
                pass
        try:
            os.rmdir(self.dir)
        except OSError:
            pass

    def end_stream(self):
        if not self.peer_exited:
            self.peer('PeerExit', [])

    # ---- peer actions (performed on the real peer end) ----------------------------
    def peer(self, name, args):
        if name == 'PeerWrite':
            data = b''.join(self.unit(self.nunits + i) for i in range(args[0]))
            self.nunits += args[0]
            n = os.write(self.slave, data)
            assert n == len(data)
            self.written += data
        elif name == 'PeerCloseTty':
            os.write(self.cmd, b'c\n')
            assert os.read(self.ack, 3) == b'ok\n'
            os.close(self.slave)
            self.slave = None
            self.peer_open = False
        elif name == 'PeerExit':
            code = args[0] if args else 7
            if self.slave is not None:
                os.close(self.slave)
                self.slave = None
            os.write(self.cmd, b'x%d\n' % code)
            os.waitid(os.P_PID, self.pid, os.WEXITED | os.WNOWAIT)     # a zombie now, not reaped by us
            self.peer_open = False
            self.peer_exited = True
            self.exit_code = code
        elif name == 'Tick':
            self.clock.advance(args[0] if args else 1)
        else:
            raise ValueError(name)


class FdWorld(World):
    """real pexpect.fdpexpect.fdspawn on a pipe / a pty master / a socket descriptor"""

    def __init__(self, workdir, kind='pipe', use_poll=False, encoding=None, unit=lambda i: bytes([65 + i % 26])):
        import pty, socket
        World.__init__(self)
        self.kind = kind
        self.unit = unit
        self.written = b''
        self.nunits = 0
        self.nread = 0
        self.peer_open = True
        self.peer_exited = False
        self._keep = []
        self.urgent = False
        if kind == 'pipe':
            r, w = os.pipe()
            self.reader_fd, self.wfd = r, w
            self._w = lambda d: os.write(w, d)
            self._c = lambda: os.close(w)
        elif kind == 'pty':
            m, sl = pty.openpty()
            tty.setraw(sl)
            self.reader_fd = m
            self._w = lambda d: os.write(sl, d)
            self._c = lambda: os.close(sl)
        elif kind == 'sockfd':
            a, b = socket.socketpair()
            self._keep = [a, b]
            self.reader_fd = a.fileno()
            self._w = lambda d: b.sendall(d)
            self._c = lambda: b.close()
        elif kind == 'fifo':
            import fcntl
            d = tempfile.mkdtemp(dir=workdir)
            path = os.path.join(d, 'fifo')
            os.mkfifo(path)
            r = os.open(path, os.O_RDONLY | os.O_NONBLOCK)
            w = os.open(path, os.O_WRONLY)
            fcntl.fcntl(r, fcntl.F_SETFL, fcntl.fcntl(r, fcntl.F_GETFL) & ~os.O_NONBLOCK)
            os.unlink(path)
            os.rmdir(d)
            self.reader_fd, self.wfd = r, w
            self._w = lambda d: os.write(w, d)
            self._c = lambda: os.close(w)
        elif kind == 'tcp':
            # a real TCP connection over the loopback interface: the only descriptor here on which the peer can
            # raise an exceptional condition (urgent data) without making anything readable
            import fcntl, struct, termios
            ls = socket.socket(socket.AF_INET, socket.SOCK_STREAM)
            ls.bind(('127.0.0.1', 0))
            ls.listen(1)
            b = socket.create_connection(ls.getsockname())
            a, _ = ls.accept()
            ls.close()
            b.setsockopt(socket.IPPROTO_TCP, socket.TCP_NODELAY, 1)
            self._keep = [a, b]
            self.reader_fd = a.fileno()
            outq = lambda: struct.unpack('i', fcntl.ioctl(b.fileno(), termios.TIOCOUTQ, b'\0\0\0\0'))[0]

            def tcp_write(d):
                b.sendall(d)
                self._spin(lambda: outq() == 0)              # acknowledged: it is in the reader's receive queue

            def tcp_close():
                b.shutdown(socket.SHUT_WR)
                p = _select.poll()
                p.register(a.fileno(), _select.POLLRDHUP)
                self._spin(lambda: bool(p.poll(0)))          # the FIN has arrived

            def tcp_urgent():
                b.send(b'!', socket.MSG_OOB)
                self._spin(lambda: bool(_select.select([], [], [a], 0)[2]))
            self._w, self._c, self._u = tcp_write, tcp_close, tcp_urgent
        else:
            raise ValueError(kind)
        self.child = pexpect.fdpexpect.fdspawn(self.reader_fd, timeout=5, use_poll=use_poll, encoding=encoding)
        self.child.delayafterread = None
        fp = pexpect.fdpexpect
        self._saved = (fp.select_ignore_interrupts, fp.poll_ignore_interrupts, pexpect.spawnbase.os)
        fp.select_ignore_interrupts, fp.poll_ignore_interrupts = self.select_wrappers(self._saved[0], self._saved[1])
        pexpect.spawnbase.os = self.os_proxy()
        self.clock.install(pexpect.fdpexpect, pexpect.expect, pexpect.utils) if hasattr(pexpect.fdpexpect, 'time') else \
            self.clock.install(pexpect.expect, pexpect.utils)

    def observe(self):
        return {'lo': self.nread, 'flagEof': bool(self.child.flag_eof)}

    def peer(self, name, args):
        if name == 'PeerWrite':
            data = b''.join(self.unit(self.nunits + i) for i in range(args[0]))
            self.nunits += args[0]
            self._w(data)
            self.written += data
        elif name == 'PeerClose':
            self._c()
            self.peer_open = False
        elif name == 'PeerUrgent':
            self._u()
            self.urgent = True
        elif name == 'Tick':
            self.clock.advance(args[0] if args else 1)
        else:
            raise ValueError(name)

    def _spin(self, cond):
        t0 = _time.time()
        while not cond():
            if _time.time() - t0 > 60:
                raise RuntimeError('peer action did not take effect')
            _time.sleep(0.0002)

    def end_stream(self):
        if self.peer_open:
            self.peer('PeerClose', [])

    def close(self):
        fp = pexpect.fdpexpect
        fp.select_ignore_interrupts, fp.poll_ignore_interrupts, pexpect.spawnbase.os = self._saved
        self.clock.uninstall()
        self.active = False
        if self.peer_open:
            try:
                self._c()
            except OSError:
                pass
        if self.kind in ('sockfd', 'tcp'):
            for x in self._keep:
                try:
                    x.close()
                except OSError:
                    pass
        else:
            try:
                os.close(self.reader_fd)
            except OSError:
                pass


class SockWorld(World):
    """real pexpect.socket_pexpect.SocketSpawn on one end of a socketpair, through a proxy socket
    object that turns every socket call of the reader into a recorded step"""

    def __init__(self, workdir, user_timeout=None, encoding=None, unit=lambda i: bytes([65 + i % 26])):
        import socket
        from pexpect import socket_pexpect
        World.__init__(self)
        self.unit = unit
        self.written = b''
        self.nunits = 0
        self.nread = 0
        self.peer_open = True
        self.peer_exited = False
        a, b = socket.socketpair()
        a.settimeout(user_timeout)
        self.a, self.b = a, b
        self.user_timeout = user_timeout
        self.reader_fd = a.fileno()
        world = self

        class SockProxy(object):
            def gettimeout(self_):
                return a.gettimeout()

            def settimeout(self_, t):
                if world.active:
                    world.before_reader_step()
                a.settimeout(t)
                if world.active:
                    world.log(e='step', k='settimeout', **world.observe())

            def recv(self_, n):
                if not world.active:
                    return a.recv(n)
                world.before_reader_step()
                t = a.gettimeout()
                import select as _sel
                is_ready = lambda: bool(_sel.select([a], [], [], 0)[0])
                try:
                    ready = world.wait_ready(is_ready, t)
                except WouldBlock:
                    world.log(e='step', k='recv', n=0, err='block', **world.observe())
                    raise
                if not ready and t is not None and t > 0:
                    world.log(e='step', k='recv', n=0, err='timeout', **world.observe())
                    raise socket.timeout('timed out')
                # t == 0 and nothing readable: let the real non-blocking socket answer
                try:
                    data = a.recv(n)
                except BaseException as e:
                    world.log(e='step', k='recv', n=0, err=type(e).__name__, **world.observe())
                    raise
                world.nread += len(data)
                o = world.observe()
                if not data:
                    o.pop('flagEof', None)
                world.log(e='step', k='recv', n=len(data), **o)
                return data

            def __getattr__(self_, name):
                return getattr(a, name)

        self.child = socket_pexpect.SocketSpawn(SockProxy(), timeout=5, encoding=encoding)
        self.child.delayafterread = None
        self.clock.install(pexpect.expect, pexpect.utils)

    def observe(self):
        t = self.a.gettimeout()
        return {'lo': self.nread, 'flagEof': bool(self.child.flag_eof), 'sockTimeout': -1 if t is None else int(t)}

    def peer(self, name, args):
        if name == 'PeerWrite':
            data = b''.join(self.unit(self.nunits + i) for i in range(args[0]))
            self.nunits += args[0]
            self.b.sendall(data)
            self.written += data
        elif name == 'PeerClose':
            self.b.close()
            self.peer_open = False
        elif name == 'Tick':
            self.clock.advance(args[0] if args else 1)
        else:
            raise ValueError(name)

    def end_stream(self):
        if self.peer_open:
            self.peer('PeerClose', [])

    def close(self):
        self.clock.uninstall()
        self.active = False
        for x in (self.a, self.b):
            try:
                x.close()
            except OSError:
                pass


class PopenWorld(World):
    """real pexpect.popen_spawn.PopenSpawn running `cat`: what the harness writes to the child's
    stdin comes back on its stdout -> pipe -> reader thread -> queue.  A peer write returns only
    once the reader thread has queued it, so arrival times are deterministic."""

    def __init__(self, workdir, encoding=None, unit=lambda i: bytes([65 + i % 26])):
        from pexpect import popen_spawn
        World.__init__(self)
        self.unit = unit
        self.written = b''
        self.nunits = 0
        self.nread = 0
        self.peer_open = True
        self.peer_exited = False
        self.child = popen_spawn.PopenSpawn(['/bin/cat'], timeout=5, encoding=encoding)
        self.child.delayafterread = 0.05
        self.queued = 0
        self.eof_queued = False
        q = self.child._read_queue
        orig_put = q.put
        world = self

        def put(item, *a, **k):
            r = orig_put(item, *a, **k)
            if item is None:
                world.eof_queued = True
            else:
                world.queued += len(item)
            return r
        q.put = put
        self.reader_fd = -1
        self.clock.install(pexpect.expect, pexpect.utils, popen_spawn)

    def observe(self):
        return {'flagEof': bool(self.child.flag_eof)}

    def _spin(self, cond):
        import time as _t
        t0 = _t.time()
        while not cond():
            if _t.time() - t0 > 60:
                raise RuntimeError('reader thread did not pick up the peer action')
            _t.sleep(0.0005)

    def peer(self, name, args):
        if name == 'PeerWrite':
            data = b''.join(self.unit(self.nunits + i) for i in range(args[0]))
            self.nunits += args[0]
            os.write(self.child.proc.stdin.fileno(), data)
            self.written += data
            self._spin(lambda: self.queued >= len(self.written))
        elif name == 'PeerClose':
            self.child.proc.stdin.close()
            self.peer_open = False
            self._spin(lambda: self.eof_queued)
            self.peer_exited = True
        else:
            raise ValueError(name)

    def close(self):
        self.clock.uninstall()
        self.active = False
        try:
            self.child.proc.stdin.close()
        except Exception:
            pass
        try:
            self.child.proc.kill()
        except Exception:
            pass
        try:
            self.child.proc.wait()
            # the reader thread holds the NUMBER of the pipe's descriptor: it must have seen the end of the stream and returned
            # before the descriptor is closed, or its next os.read() hits whatever descriptor gets that number next (the pty of
            # the next world in this process: it would steal that world's data).  If it has not (starved): leak the descriptor.
            self.child._read_thread.join(timeout=30)
            if not self.child._read_thread.is_alive():
                self.child.proc.stdout.close()
            else:
                _LEAKED.append(self.child.proc.stdout)
        except Exception:
            pass


_LEAKED = []      # file objects that must not be closed (by the garbage collector either) while a starved thread may still read them


class GatedPopenWorld(World):
    """PopenSpawn('cat') with the reader THREAD under schedule control: its os.read() on the pipe and
    its queue.put() each wait for a permit ('T' items of the schedule), the reader's get_nowait()
    calls are the reader steps ('R').  Peer writes go to cat's stdin and are complete (visible in
    the pipe, checked with FIONREAD) before the schedule goes on."""

    def __init__(self, workdir, unit=lambda i: bytes([65 + i % 26])):
        import threading, queue as _queue, fcntl, termios, struct
        from pexpect import popen_spawn
        World.__init__(self)
        self.unit = unit
        self.written = b''
        self.nunits = 0
        self.nread = 0          # bytes the thread took from the pipe
        self.peer_open = True
        self.peer_exited = False
        self.permit = threading.Semaphore(0)
        self.done = threading.Semaphore(0)
        self.free_run = False
        self.tphase = 'read'
        self.teof = False
        self.tdone = False
        self.reaped = False
        world = self
        main = threading.current_thread()

        class OsProxy(object):
            def read(self_, fd, n):
                if threading.current_thread() is not main and not world.free_run:
                    world.permit.acquire()
                    if world.free_run:
                        return os.read(fd, n)
                    data = os.read(fd, n)
                    world.nread += len(data)
                    world.log(e='step', k='tread', n=len(data), plo=world.nread)
                    world.done.release()
                    return data
                return os.read(fd, n)

            def __getattr__(self_, name):
                return getattr(os, name)

        class GQueue(_queue.Queue):
            def put(self_, item, *a, **k):
                if threading.current_thread() is not main and not world.free_run:
                    world.permit.acquire()
                    r = _queue.Queue.put(self_, item, *a, **k)
                    if not world.free_run:
                        world.log(e='step', k='tput', qlen=self_.qsize())
                        world.done.release()
                    return r
                return _queue.Queue.put(self_, item, *a, **k)

            def get_nowait(self_):
                if world.active:
                    world.before_reader_step()
                    try:
                        item = _queue.Queue.get_nowait(self_)
                    except _queue.Empty:
                        world.log(e='step', k='qget', n=-1, qlen=self_.qsize())
                        raise
                    world.log(e='step', k='qget', n=0 if item is None else len(item), qlen=self_.qsize())
                    return item
                return _queue.Queue.get_nowait(self_)

        self._saved = (popen_spawn.os, popen_spawn.Queue)
        popen_spawn.os = OsProxy()
        popen_spawn.Queue = GQueue
        self.child = popen_spawn.PopenSpawn(['/bin/cat'], timeout=5)
        self.child.delayafterread = None
        self.reader_fd = -1
        self.pipe_fd = self.child.proc.stdout.fileno()
        self._fionread = lambda: struct.unpack('i', fcntl.ioctl(self.pipe_fd, termios.FIONREAD, b'\0\0\0\0'))[0]
        self.clock.install(pexpect.expect, pexpect.utils, popen_spawn)

    def observe(self):
        return {}

    def thread_step(self):
        self.permit.release()
        if not self.done.acquire(timeout=60):
            raise RuntimeError('reader thread did not complete its step')

    def _spin(self, cond):
        import time as _t
        t0 = _t.time()
        while not cond():
            if _t.time() - t0 > 60:
                raise RuntimeError('peer action did not take effect')
            _t.sleep(0.0005)

    def peer(self, name, args):
        if name == 'PeerWrite':
            data = b''.join(self.unit(self.nunits + i) for i in range(args[0]))
            self.nunits += args[0]
            os.write(self.child.proc.stdin.fileno(), data)
            self.written += data
            self._spin(lambda: self._fionread() >= len(self.written) - self.nread)
        elif name == 'PeerClose':
            self.child.proc.stdin.close()
            self.peer_open = False
            # cat has exited (its end of the pipe is closed) - a zombie, NOT reaped: proc.returncode stays None
            os.waitid(os.P_PID, self.child.proc.pid, os.WEXITED | os.WNOWAIT)
            self.peer_exited = True
        elif name == 'Reap':
            # the caller reaps the exited child between two reads: PopenSpawn.wait() sets proc.returncode
            self.child.wait()
            self.reaped = True
        elif name in ('ThreadRead', 'ThreadPut'):
            # the real thread reads everything the pipe holds in one os.read; a behaviour of the model in
            # which it took less has further thread steps that have no counterpart: skip those
            want = 'read' if name == 'ThreadRead' else 'put'
            if want != self.tphase or self.tdone:
                return
            if want == 'read' and self._fionread() == 0 and self.peer_open:
                return
            at_eof = (want == 'read' and self._fionread() == 0 and not self.peer_open)
            self.thread_step()
            if want == 'put' and self.teof:
                self.tdone = True                  # the sentinel is queued: the thread has returned
            if want == 'read':
                self.teof = at_eof
            self.tphase = 'put' if want == 'read' else 'read'
        else:
            raise ValueError(name)

    def end_stream(self):
        """the child exits (if it has not yet) and the reader thread runs on, ungated, until it has queued the sentinel"""
        if self.peer_open:
            self.peer('PeerClose', [])
        self.free_run = True
        for _ in range(8):
            self.permit.release()
        self.child._read_thread.join(timeout=60)
        if self.child._read_thread.is_alive():
            raise RuntimeError('reader thread did not finish')

    def close(self):
        from pexpect import popen_spawn
        self.free_run = True
        for _ in range(8):
            self.permit.release()
        try:
            self.child.proc.stdin.close()
        except Exception:
            pass
        try:
            self.child.proc.kill()
        except Exception:
            pass
        try:
            self.child.proc.wait()
        except Exception:
            pass
        try:
            self.child._read_thread.join(timeout=30)
            if not self.child._read_thread.is_alive():        # (see PopenWorld.close)
                self.child.proc.stdout.close()
            else:
                _LEAKED.append(self.child.proc.stdout)
        except Exception:
            pass
        popen_spawn.os, popen_spawn.Queue = self._saved
        self.clock.uninstall()
        self.active = False

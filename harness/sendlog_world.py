"""Real objects for the send / logging checks (C08, C11): one pexpect object on a real transport
with a reporting peer, in-memory logs, and a barrier that tells exactly which bytes one
operation put on the wire.

  pty     pexpect.spawn running harness/peers/rawpeer.py (raw-mode tty, reports every byte it reads
          to a FIFO); "child output" is written by the harness to the slave side
  popen   PopenSpawn running the same peer on pipes (report FIFO); child output through /proc/<pid>/fd/1
  fd      fdspawn on one end of a socketpair, or on a pty master whose raw slave the harness holds
  socket  SocketSpawn on one end of a socketpair

Barrier: after every operation the harness itself writes a marker straight to the transport
(below pexpect: os.write / sendall on the raw descriptor).  The peer's report is ordered, so
everything between two markers is what the operation in between wrote - no sleeps, and bytes
that are lost, duplicated, added or late all show.

Environment actions (the 'life' / 'await' walks of C08 / C11): the peer shuts its output side down and
keeps reading (socket: shutdown(SHUT_WR); Popen child: SIGUSR1 makes rawpeer.py point fd 1 and 2 at
/dev/null), the peer goes away, the caller closes the object, the peer does not read while a socket
with a user timeout sends (the Drain thread has a gate: the peer reads only when it is told to, i.e.
when the sender's buffer is full or the call is over - no sleeps).  Awaited reads run on the virtual
asyncio loop of harness/vloop.py with a hand-fed read transport.
"""
import array, asyncio, codecs, fcntl, os, pty, select, signal, socket, sys, tempfile, termios, threading, time, tty
import pexpect
import pexpect.pty_spawn, pexpect.fdpexpect, pexpect.popen_spawn, pexpect.socket_pexpect
from .reclog import RecLog

RAWPEER = os.path.join(os.path.dirname(os.path.abspath(__file__)), 'peers', 'rawpeer.py')
LE = sys.byteorder == 'little'
ENCODING = {'bytes': None, 'utf8': 'utf-8', 'utf16': 'utf-16'}
WIRE = {'bytes': 'utf-8', 'utf8': 'utf-8', 'utf16': 'utf-16-le' if LE else 'utf-16-be'}     # one text, no BOM
BIG_N = 300000          # > pipe buffer (64 KiB), > pty buffers, > default socket buffer (208 KiB)
ESCAPE = b'\x1d'
STALL_TIMEOUT = 0.05    # the user's socket timeout in the steps in which the peer does not read
NEVER = '<<NEVER-IN-THE-OUTPUT>>'


class Machinery(Exception):
    """the harness could not carry the step out (not a verdict about pexpect)"""


class Drain(threading.Thread):
    """reads a descriptor to the end into memory; the main thread waits on markers"""

    def __init__(self, fd):
        threading.Thread.__init__(self, daemon=True)
        self.fd = fd
        self.buf = bytearray()
        self.cv = threading.Condition()
        self.eof = False
        self.stopping = False
        self.gate = threading.Event()           # cleared: the peer does not read (it is told when to)
        self.gate.set()
        self._wr, self._ww = os.pipe()          # wakes the thread up when it is told to stop
        self.start()

    def run(self):
        while not self.stopping:
            try:
                self.gate.wait()
                r = select.select([self.fd, self._wr], [], [], 5)[0]
                if self.stopping or self._wr in r:
                    return
                if not r or not self.gate.is_set():
                    continue
                d = os.read(self.fd, 1 << 18)
            except (OSError, ValueError):
                d = b''
            with self.cv:
                if d:
                    self.buf += d
                else:
                    self.eof = True
                self.cv.notify_all()
            if not d:
                return

    def take_until(self, marker, timeout=20.0):
        """bytes before the next `marker`; the marker is consumed"""
        end = time.time() + timeout
        with self.cv:
            scanned = 0
            while True:
                i = self.buf.find(marker, max(0, scanned - len(marker)))
                if i >= 0:
                    seg = bytes(self.buf[:i])
                    del self.buf[:i + len(marker)]
                    return seg
                scanned = len(self.buf)
                left = end - time.time()
                if left <= 0 or self.eof:
                    raise Machinery('barrier marker did not arrive (eof=%s, %d bytes pending)' % (self.eof, len(self.buf)))
                self.cv.wait(left)

    def take_n(self, n, timeout=5.0):
        """up to n bytes, waiting at most `timeout` for them"""
        end = time.time() + timeout
        with self.cv:
            while len(self.buf) < n and not self.eof:
                left = end - time.time()
                if left <= 0:
                    break
                self.cv.wait(left)
            seg = bytes(self.buf[:n])
            del self.buf[:len(seg)]
            return seg

    def wait_eof(self, timeout=10.0):
        end = time.time() + timeout
        with self.cv:
            while not self.eof:
                left = end - time.time()
                if left <= 0:
                    return False
                self.cv.wait(left)
        return True

    def rest(self):
        with self.cv:
            seg = bytes(self.buf)
            del self.buf[:]
            return seg

    def stop(self):
        """ends the thread and waits for it: the descriptor must not be read by a stale thread after
        the caller closed it and the number was reused"""
        if self._ww is None:
            return
        self.stopping = True
        self.gate.set()
        try:
            os.write(self._ww, b'x')
        except OSError:
            pass
        self.join(5)
        for fd in (self._wr, self._ww):
            try:
                os.close(fd)
            except OSError:
                pass
        self._ww = None


class PeerSpawn(pexpect.spawn):
    """pexpect.spawn through its _spawnpty seam (spawn() would encode the command line with the
    instance encoding, BOM included, which is about launching, not about sending or logging)"""
    peer_argv = None

    def _spawnpty(self, args, **kwargs):
        import ptyprocess
        return ptyprocess.PtyProcess.spawn(self.peer_argv, **kwargs)


def _peer_argv(fifo):
    return [sys.executable.encode(), b'-S', b'-E', RAWPEER.encode(), fifo.encode()]


class Rig(object):
    def __init__(self, transport, mode, logcfg, workdir, variant=0, timeout=20, sock_tmo=None, fd_kind=None):
        """sock_tmo: 'none' | 'user' (default: by the parity of `variant`); fd_kind: 'socketpair' | 'ptymaster' (same)"""
        self.transport, self.mode, self.logcfg = transport, mode, sorted(logcfg)
        self.sock = self.peer_sock = None
        self.send_fd = None           # the descriptor pexpect writes to (select for writability: is its buffer full?)
        self.loop = None              # virtual asyncio loop of the awaited reads
        self.fifo = []                # child output (API type) that arrived / was taken in and was not yet handed to a caller
        self.link = 'up'
        self.dir = tempfile.mkdtemp(dir=workdir)
        self.nmark = 0
        self.order = []
        self.logs = {n: RecLog(n, shared=self.order) for n in self.logcfg}
        self.peer_pid = None
        self.out_fd = None            # where the harness plays "child output"
        self.kind = transport
        self._fin = []
        enc = ENCODING[mode]
        kw = dict(timeout=timeout, encoding=enc, maxread=65536 if variant % 2 else 2000)
        if transport in ('pty', 'popen'):
            fifo = os.path.join(self.dir, 'report')
            os.mkfifo(fifo)
            rfd = os.open(fifo, os.O_RDONLY | os.O_NONBLOCK)
            self.drain = Drain(rfd)
            self._fin.append(lambda: os.close(rfd))
            if transport == 'pty':
                PeerSpawn.peer_argv = _peer_argv(fifo)
                self.child = PeerSpawn(sys.executable, [RAWPEER, fifo], echo=False, **kw)
                self.child.delaybeforesend = None
                self.child.delayafterclose = self.child.delayafterterminate = 0
                self.child.ptyproc.delayafterclose = self.child.ptyproc.delayafterterminate = 0
                self.peer_pid = self.child.pid
                self._raw = lambda d: _write_all(self.child.child_fd, d)
                self.send_fd = self.child.child_fd
            else:
                self.child = pexpect.popen_spawn.PopenSpawn([a.decode() for a in _peer_argv(fifo)], **kw)
                self.peer_pid = self.child.proc.pid
                # the harness writes its markers through a descriptor of its own: they must arrive whatever the object does
                # to its end of the pipe (drop_raw() before a step that is to close the child's stdin)
                fd = os.dup(self.child.proc.stdin.fileno())
                self._raw_fd = fd
                self._raw = lambda d: _write_all(fd, d)
                self.send_fd = fd
                self._fin.append(self.drop_raw)
            if self.drain.take_n(1, 20) != b'R':
                raise Machinery('peer did not come up')
            self.out_fd = os.open('/proc/%d/fd/1' % self.peer_pid, os.O_WRONLY | (os.O_NOCTTY if transport == 'pty' else 0))
            self._close_out = lambda: os.close(self.out_fd)
            self._fin.append(self._close_out)
            if transport == 'pty':
                cc = termios.tcgetattr(self.out_fd)[6]
                self.veof, self.vintr = cc[termios.VEOF], cc[termios.VINTR]
        elif transport == 'socket' or (transport == 'fd' and (fd_kind == 'socketpair' or (fd_kind is None and variant % 2 == 0))):
            a, b = socket.socketpair()
            self._keep = (a, b)
            self.sock, self.peer_sock = a, b
            self.send_fd = a.fileno()
            if transport == 'socket':
                if sock_tmo == 'user' or (sock_tmo is None and variant % 2 == 1):
                    # a socket on which the user has set a timeout (socket.create_connection(addr, timeout=...)):
                    # Python then sends in non-blocking mode, one send() may take only part of a large payload
                    a.settimeout(30)
                    self.kind = 'socket(with timeout)'
                self.child = pexpect.socket_pexpect.SocketSpawn(a, **kw)
            else:
                self.kind = 'fd(socketpair)'
                self.child = pexpect.fdpexpect.fdspawn(a.fileno(), **kw)
            # (below pexpect, and whatever mode the socket is in: a marker must arrive also when a step left it non-blocking)
            afd = a.fileno()
            self._raw = lambda d: _write_all(afd, d)
            self.sock_timeout0 = a.gettimeout()
            self.drain = Drain(b.fileno())
            self.out_fd = b.fileno()
            self._fin.append(lambda: _quiet(a.close))
            self._fin.append(lambda: _quiet(b.close))
        elif transport == 'fd':
            self.kind = 'fd(pty master)'
            m, s = pty.openpty()
            tty.setraw(s)
            self.child = pexpect.fdpexpect.fdspawn(m, **kw)
            self._raw = lambda d: _write_all(m, d)
            self.drain = Drain(s)
            self.out_fd = s
            self.send_fd = m
            self._close_m = lambda: os.close(m)
            self._fin.append(self._close_m)
            self._fin.append(lambda: os.close(s))
        else:
            raise ValueError(transport)
        c = self.child
        c.delayafterread = None
        c.logfile = self.logs.get('all')
        c.logfile_read = self.logs.get('read')
        c.logfile_send = self.logs.get('send')
        self.stdin_open = True
        self.out_started = False      # utf-16: the child's output starts with a byte-order mark (the stream decoder insists)
        self.reader_fd = None if transport == 'popen' else c.child_fd

    # ---- barrier ----
    def barrier(self):
        """everything the peer received since the previous barrier"""
        self.nmark += 1
        mark = b'\x00\x01MK%08d\x01\x00' % self.nmark
        self._raw(mark)
        return self.drain.take_until(mark)

    def child_output(self, data):
        """play `data` as the child's output; a thread when it is larger than the kernel buffers
        (the reader is the calling thread)"""
        if len(data) <= 2048:
            _write_all(self.out_fd, data)
            return None
        t = threading.Thread(target=_write_all, args=(self.out_fd, data), daemon=True)
        t.start()
        return t

    def out_prefix(self):
        """bytes the child's very first output starts with"""
        first = not self.out_started
        self.out_started = True
        return codecs.BOM_UTF16 if (first and self.mode == 'utf16') else b''

    def discard_input(self, feeder):
        """a read failed while the feeder thread is still writing the child's output: take it off
        the transport ourselves so that the thread (and the next steps) are not stuck"""
        end = time.time() + 30
        while feeder is not None and feeder.is_alive() and time.time() < end:
            if self.reader_fd is None:
                feeder.join(0.05)
                continue
            if select.select([self.reader_fd], [], [], 0.05)[0]:
                try:
                    os.read(self.reader_fd, 1 << 16)
                except OSError:
                    break

    def reset_logs(self):
        for l in self.logs.values():
            l.reset()
        del self.order[:]

    # ---- the peer reads only when it is told to ----
    def gated(self, fn, stalled=False):
        """run the send-family call fn() with the peer not reading until the sender's buffer is full (then the call is
        blocked - or, on a socket that was left non-blocking, has failed) or the call is over; stalled: until it is over"""
        d = self.drain
        if self.send_fd is None or self.link != 'up':
            return fn()
        d.gate.clear()
        done = threading.Event()
        t = None
        if not stalled:
            fd, pfd, cap = self.send_fd, (self.peer_sock.fileno() if self.peer_sock is not None else None), sock_capacity()

            def watch():
                # full = the peer's queue holds what one send() can put there (measured once per process on a socketpair of
                # its own); other descriptors: not writable any more.  (Fallback, never needed so far: nothing moves for 0.3 s.)
                last, since = -1, time.time()
                while not done.is_set():
                    try:
                        if pfd is not None:
                            q = _queued(pfd)
                            if q >= cap:
                                break
                            if q != last:
                                last, since = q, time.time()
                            elif q > 0 and time.time() - since > 0.3:
                                break
                        elif not select.select([], [fd], [], 0)[1]:
                            break
                    except (OSError, ValueError):
                        break
                    done.wait(0.0005)
                d.gate.set()
            t = threading.Thread(target=watch, daemon=True)
            t.start()
        try:
            return fn()
        finally:
            done.set()
            if t is not None:
                t.join(10)
            if not stalled:
                d.gate.set()

    def release(self):
        self.drain.gate.set()

    def drop_raw(self):
        fd, self._raw_fd = getattr(self, '_raw_fd', None), None
        if fd is not None:
            os.close(fd)

    # ---- environment ----
    def half_close(self):
        """the peer shuts its output side down and keeps reading its input"""
        if self.peer_sock is not None:
            self.peer_sock.shutdown(socket.SHUT_WR)
        elif self.transport == 'popen':
            os.kill(self.peer_pid, signal.SIGUSR1)         # rawpeer.py: fd 1 and 2 -> /dev/null
            os.close(self.out_fd)                          # our own handle on the child's stdout
            self._fin = [f for f in self._fin if f is not self._close_out]
        else:
            raise Machinery('no half-close on %s' % self.kind)
        self.out_fd = None

    def peer_gone(self):
        """the peer closes the connection / exits"""
        if self.peer_sock is not None:
            self.drain.stop()
            self.peer_sock.close()
        elif self.transport == 'popen':
            self.child.proc.kill()
            self.child.proc.wait()
        else:
            raise Machinery('no "peer gone" on %s' % self.kind)
        self.link = 'gone'
        self.stdin_open = False

    def close_self(self):
        """the caller closes the object"""
        c = self.child
        if self.transport == 'pty':
            # (close() has to see a child that is gone: with delayafterclose = delayafterterminate = 0 it would not wait for it)
            os.kill(c.pid, signal.SIGKILL)
            os.waitid(os.P_PID, c.pid, os.WEXITED | os.WNOWAIT)
            c.close(force=True)
        elif self.transport == 'popen':
            raise Machinery('PopenSpawn has no close()')
        else:
            c.close()
            if self.kind == 'fd(socketpair)':
                self.sock.detach()                         # fdspawn closed the descriptor: the socket object forgets it
            elif self.kind == 'fd(pty master)':
                self._fin = [f for f in self._fin if f is not self._close_m]
        self.link = 'closed'
        self.stdin_open = False

    # ---- awaited reads: virtual asyncio loop, hand-fed read transport ----
    def aloop(self):
        if self.loop is None:
            from .vloop import VirtualLoop
            self.loop = VirtualLoop()
            self.child._verif_kernel = {'data': b'', 'eof': False}
        return self.loop

    def feed(self, data):
        """the child writes `data` (as seen by the asyncio transport)"""
        self.aloop()
        tr = getattr(self.child, '_verif_transport', None)
        if tr is not None:
            tr.arrive(data)
        else:
            self.child._verif_kernel['data'] += data

    def arun(self, coro):
        return self.aloop().run_until_complete(coro)

    async def settle(self):
        """let the loop do all it can do now (the reader callback of a transport that is reading)"""
        loop = self.aloop()
        for _ in range(50):
            await asyncio.sleep(0)
            await asyncio.sleep(0)
            if not any(t.readable() or t._scheduled for t in loop.transports):
                return
        raise Machinery('the virtual loop does not settle')

    # ---- in-process interact(): an outer pty plays the user ----
    def interact(self, script):
        """run child.interact() with child.STDIN_FILENO / STDOUT_FILENO on the slave of an outer pty.
        `script` is a list of callables(stage) invoked from the wrapper around the select of
        interact's copy loop: stage 'inject' performs the user's / the child's next action, stage
        'settle' (at the next select, i.e. after the loop has processed it) collects the effects.
        The last script item types the escape character."""
        c = self.child
        om, osl = pty.openpty()
        user = Drain(om)
        ps = pexpect.pty_spawn
        real_sel, real_poll = ps.select_ignore_interrupts, ps.poll_ignore_interrupts
        state = {'i': 0, 'err': None}
        rig = self

        def before_select():
            try:
                i = state['i']
                if i > 0 and i <= len(script):
                    script[i - 1]('settle', user)
                if i < len(script):
                    script[i]('inject', om)
                state['i'] = i + 1
            except BaseException as e:       # surfaces after interact() returns
                state['err'] = e
                os.write(om, ESCAPE)

        def sel(iwtd, owtd, ewtd, timeout=None):
            if osl in iwtd:
                before_select()
                r = real_sel(iwtd, owtd, ewtd, 20)
                if not (r[0] or r[1] or r[2]):
                    state['err'] = state['err'] or Machinery('interact(): nothing became readable')
                    os.write(om, ESCAPE)
                    return real_sel(iwtd, owtd, ewtd, 20)
                return r
            return real_sel(iwtd, owtd, ewtd, timeout)

        def pol(fds, timeout=None):
            if osl in fds:
                before_select()
                return real_poll(fds, 20)
            return real_poll(fds, timeout)
        saved = (c.STDIN_FILENO, c.STDOUT_FILENO)
        before = termios.tcgetattr(osl)
        c.STDIN_FILENO = c.STDOUT_FILENO = osl
        ps.select_ignore_interrupts, ps.poll_ignore_interrupts = sel, pol
        exc = None
        try:
            c.interact(escape_character=chr(29))
        except Exception as e:
            exc = e
        finally:
            ps.select_ignore_interrupts, ps.poll_ignore_interrupts = real_sel, real_poll
            c.STDIN_FILENO, c.STDOUT_FILENO = saved
        try:
            if state['i'] <= len(script) and state['i'] > 0 and exc is None and state['err'] is None:
                script[state['i'] - 1]('settle', user)
        finally:
            after = termios.tcgetattr(osl)
            user.stop()
            os.close(om)
            os.close(osl)
        if state['err'] is not None:
            raise state['err']
        return exc, before == after, state['i']

    def close(self):
        try:
            self.drain.stop()
        except Exception:
            pass
        c = self.child
        if self.loop is not None:
            try:
                self.loop.close()
            except Exception:
                pass
        try:
            if self.transport == 'pty':
                try:
                    os.kill(c.pid, signal.SIGKILL)
                    os.waitid(os.P_PID, c.pid, os.WEXITED | os.WNOWAIT)
                except OSError:
                    pass
                c.close(force=True)
            elif self.transport == 'popen':
                p = c.proc
                try:
                    p.kill()
                except OSError:
                    pass
                p.wait()
                try:
                    if self.out_fd is not None:
                        os.close(self.out_fd)      # our own handle on the child's stdout: the reader thread sees EOF only without it
                except OSError:
                    pass
                self._fin = [f for f in self._fin if f is not self._close_out]
                c._read_thread.join(2)
                for f in (p.stdin, p.stdout):
                    try:
                        f.close()
                    except OSError:
                        pass
                c._read_thread.join(2)
        except Exception:
            pass
        for f in self._fin:
            try:
                f()
            except Exception:
                pass
        try:
            for n in os.listdir(self.dir):
                os.unlink(os.path.join(self.dir, n))
            os.rmdir(self.dir)
        except OSError:
            pass


def _write_all(fd, data):
    view = memoryview(data)
    while len(view):
        try:
            n = os.write(fd, view)
        except BlockingIOError:
            select.select([], [fd], [], 5)
            continue
        view = view[n:]


_CAP = []


def sock_capacity():
    """how many bytes one send() puts into an empty socketpair before it would block"""
    if not _CAP:
        a, b = socket.socketpair()
        a.setblocking(False)
        try:
            _CAP.append(a.send(b'\0' * (1 << 23)))
        finally:
            a.close()
            b.close()
    return _CAP[0]


def _queued(fd):
    """bytes waiting to be read on a socket"""
    buf = array.array('i', [0])
    fcntl.ioctl(fd, termios.FIONREAD, buf)
    return buf[0]


def _quiet(f):
    try:
        f()
    except OSError:
        pass


# ---------------------------------------------------------------- instantiation of the model's payload classes
def payload(cls, mode, tag, big_n=BIG_N):
    """the argument handed to the API for payload class `cls` (tagged, so that a duplicated or
    reordered argument shows).  bytes mode: bytes, except 'nonascii' (and every other 'ascii'),
    which is text given in bytes mode and has to reach the peer UTF-8 encoded."""
    if cls == 'empty':
        v = ''
    elif cls == 'ascii':
        v = 'hello-%d;' % tag
    elif cls == 'nonascii':
        v = 'héllo-%d-€-\U0001F600;' % tag
    elif cls == 'allbytes':
        v = ''.join(map(chr, range(256)))
    elif cls == 'sep':
        # every other one ends in the line separator itself (sendline still adds its own: "adding one line separator")
        v = 'l1-%d' % tag + os.linesep + 'l2\r\n\n' + (';' if tag % 2 == 0 else os.linesep)
    elif cls == 'big':
        unit = '0123456789abcdefé€'
        v = 'big-%d:' % tag + unit * (big_n // len(unit)) + ';'
    else:
        raise ValueError(cls)
    if mode == 'bytes':
        if cls == 'nonascii' or (cls == 'ascii' and tag % 2):
            return v
        if cls == 'allbytes':
            return bytes(range(256))
        return v.encode('utf-8')
    return v


def wire(v, mode):
    """the bytes an argument must arrive as (no byte-order mark: that is its own item)"""
    return v if isinstance(v, bytes) else v.encode(WIRE[mode])


def api(v, mode):
    """the argument in the API's string type, which is what the logs get"""
    if mode == 'bytes':
        return v if isinstance(v, bytes) else v.encode('utf-8')
    return v


def api_type(mode):
    return bytes if mode == 'bytes' else str


CONTROL_TABLE = dict([(chr(ord('a') + i), i + 1) for i in range(26)] +
                     [('@', 0), ('`', 0), ('[', 27), ('{', 27), ('\\', 28), ('|', 28), (']', 29), ('}', 29),
                      ('^', 30), ('~', 30), ('_', 31), ('?', 127)])
LETTERS = [chr(ord('a') + i) for i in range(26)] + ['C', 'Z']
PUNCT = ['@', '`', '[', '{', '\\', '|', ']', '}', '^', '~', '_', '?']

"""./check <ID> [--tier quick|thorough] [--replay PATH]"""
import argparse, importlib, os, sys, traceback

VERIF = os.path.dirname(os.path.dirname(os.path.abspath(__file__)))

CHECKS = {
    'C01': 'expect_family', 'C02': 'expect_family', 'C03': 'expect_family', 'C04': 'expect_family',
    'C05': 'deadline', 'C06': 'transport', 'C07': 'codec', 'C08': 'sendlog', 'C11': 'sendlog',
    'C09': 'lifecycle', 'C10': 'lifecycle', 'C12': 'run_check', 'C13': 'launch', 'C14': 'async_parity',
    'C15': 'interact', 'C16': 'repl', 'C17': 'pxssh_check', 'C18': 'screen_ansi', 'C19': 'screen_ansi',
    'C20': 'c20',
}


def normalise_signals():
    """A check may be started under nohup (SIGHUP ignored) or as a background job of a non-interactive shell (SIGINT and
    SIGQUIT ignored).  Ignored dispositions survive exec, so every child pexpect starts for us would ignore those signals
    too - and the lifecycle / deadline / interact checks send exactly those signals and reason about their default effect.
    A signal that is *caught* is reset to its default action by exec: each inherited "ignore" (other than the two the
    interpreter itself sets, SIGPIPE and SIGXFSZ) is replaced by a handler that does nothing - the harness keeps ignoring
    the signal, its exec'ed children start with the default action."""
    import signal
    keep = {getattr(signal, n) for n in ('SIGPIPE', 'SIGXFSZ') if hasattr(signal, n)}
    changed = []
    for sig in range(1, signal.NSIG):
        if sig in keep or sig in (signal.SIGKILL, signal.SIGSTOP):
            continue
        try:
            if signal.getsignal(sig) is signal.SIG_IGN:
                signal.signal(sig, lambda *a: None)
                changed.append(sig)
        except (OSError, ValueError, RuntimeError):
            pass
    return changed


def main(argv=None):
    normalise_signals()
    ap = argparse.ArgumentParser()
    ap.add_argument('pid')
    ap.add_argument('--tier', default=os.environ.get('VERIF_TIER', 'quick'), choices=['quick', 'thorough'])
    ap.add_argument('--replay')
    a = ap.parse_args(argv)
    seed = int(os.environ.get('VERIF_SEED', '0') or 0)
    from . import common, tlc
    common.assert_repo()
    if a.pid not in CHECKS:
        print('no check for %s' % a.pid)
        return 2
    mod = importlib.import_module('harness.checks.' + CHECKS[a.pid])
    ctx = common.Ctx(a.pid, a.tier, seed, a.replay)
    try:
        status = mod.run(ctx)
    except tlc.TLCError as e:
        print('MACHINERY-ERROR %s: %s' % (a.pid, e))
        status = 2
    except Exception:
        traceback.print_exc()
        print('MACHINERY-ERROR %s: unexpected exception in the check itself' % a.pid)
        status = 2
    finally:
        if status != 2 or os.environ.get('VERIF_KEEP') is None:
            ctx.cleanup()
    print('[%s] exit %d after %.0fs' % (a.pid, status, ctx.wall()))
    return status


if __name__ == '__main__':
    sys.exit(main())

"""In-memory log object for the logging / decoding checks (C07, C08, C11): records every write
(value and type), counts flush() calls and notes whether a flush followed every write."""


class RecLog(object):
    def __init__(self, name='log', shared=None):
        self.name = name
        self.writes = []            # values exactly as given
        self.flushes = 0
        self.unflushed = 0          # writes since the last flush
        self.max_unflushed = 0      # > 1 means some write was not followed by a flush before the next write
        self.shared = shared        # optional list: global order of events over several logs

    def write(self, s):
        self.writes.append(s)
        self.unflushed += 1
        self.max_unflushed = max(self.max_unflushed, self.unflushed)
        if self.shared is not None:
            self.shared.append((self.name, 'write', s))
        return len(s) if hasattr(s, '__len__') else None

    def flush(self):
        self.flushes += 1
        self.unflushed = 0
        if self.shared is not None:
            self.shared.append((self.name, 'flush', None))

    def reset(self):
        self.writes = []
        self.flushes = 0
        self.unflushed = 0
        self.max_unflushed = 0

    def types(self):
        return sorted(set(type(w).__name__ for w in self.writes))

    def joined(self, typ):
        """concatenation of the writes of type `typ` (writes of another type are reported by types())"""
        return typ().join(w for w in self.writes if isinstance(w, typ))
